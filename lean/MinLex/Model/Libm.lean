/-
  Model of the bundled libm (`/repo/src/libm.rs`, a port of FreeBSD's e_pow.c / e_powf.c):
  `powd`, `powf`, `scalbnd`, `scalbnf`, over IEEE-754 BIT PATTERNS (`Nat`; 64 bits for f64, 32 bits for f32).

  Arithmetic.  `fadd fsub fmul fdiv` decode both operands to exact signed dyadic numbers, compute the exact
  result and round it once with the specification `rne` (round-to-nearest-even, gradual underflow, overflow to
  infinity); the sign is handled here (−0, `x − x = +0`, a zero product/quotient keeps the xor of the signs).
  Every `a * b + c` of the source is two roundings (Rust never contracts to FMA).

  What is NOT modelled
  * NaN payloads and NaN signs: every NaN produced by the arithmetic is the canonical quiet NaN `qnan`
    (`0x7ff8…` / `0x7fc0…`); `powd`/`powf` themselves return `none` wherever the source would return a NaN
    (`x + y` for a NaN argument, `(x-x)/(x-x)`, `(z-z)/(z-z)`).
  * `sqrtd` / `sqrtf` (the `y == 0.5`, `x ≥ +0` shortcut) are modelled at value level only, as the correctly
    rounded square root `fsqrt` (see there); their bit-by-bit loop is not mirrored.
  * floating-point exception flags.
  * Integer semantics are those of a release build: `i32`/`u32` `+ - <<` wrap, shift amounts are taken
    modulo 32 (on every branch reached for finite arguments the amounts are in `0..31` and nothing wraps except
    the documented `j += n << 20` style exponent adjustments, which cannot overflow either).
  Everything else — every branch reachable for finite or infinite `y`, and for every non-NaN `x` (positive,
  negative, zero, infinite) — is modelled statement by statement: the special cases of `y` (0, ±inf, ±1, 2), the
  special values of `x` (±0, ±inf, ±1), the sign logic `yisint`, the `|y| > 2^31` (`2^27`) branch, the
  subnormal-`x` scaling, the three intervals for `k`, the log2 evaluation, the over/underflow tests, the
  `2^(p_h+p_l)` evaluation and the final `scalbn` for subnormal results.

  `to_bits` / `from_bits` are the identity on patterns; `get_high_word`, `with_set_high_word`,
  `with_set_low_word` are `getHighWord`, `withSetHighWord`, `withSetLowWord`; `n as f64` is `ofI32`, `x as i32`
  is `toI32`; comparisons are `flt fle fgt fge`.

  Encoding: arguments and results are the raw bit patterns (`f64::to_bits` / `f32::to_bits` as `Nat`);
  `none` = "the source returns a NaN" (payload / sign of the NaN not modelled).
-/
import MinLex.Spec.Rne
namespace MinLex.Libm
open MinLex

-- ====================================================================== 32-bit integers
/-- an `i32` is modelled by the `Int` it denotes; this wraps an arbitrary integer into the i32 range -/
def wrapI32 (i : Int) : Int :=
  let r := i % 4294967296
  if r < 2147483648 then r else r - 4294967296
/-- `i as u32` -/
def u32 (i : Int) : Nat := (i % 4294967296).toNat
/-- `n as i32` for a `u32` (or the low 32 bits of any natural) -/
def i32 (n : Nat) : Int := wrapI32 (n : Int)
/-- shift amounts: release-build semantics (`wrapping_shl/shr`), amount mod 32 -/
def shAmt (k : Int) : Nat := (k % 32).toNat
def iand (a b : Int) : Int := i32 (u32 a &&& u32 b)
def ior (a b : Int) : Int := i32 (u32 a ||| u32 b)
/-- `!a` on `i32` -/
def inot (a : Int) : Int := -a - 1
/-- `a << k` on `i32` -/
def ishl (a k : Int) : Int := i32 (u32 a <<< shAmt k)
/-- `a >> k` on `i32` (arithmetic) -/
def ishr (a k : Int) : Int := a / ((2 ^ shAmt k : Nat) : Int)
def iadd (a b : Int) : Int := wrapI32 (a + b)
def isub (a b : Int) : Int := wrapI32 (a - b)
def ineg (a : Int) : Int := wrapI32 (-a)
/-- `u32` operations (on naturals `< 2^32`) -/
def ushr (a : Nat) (k : Int) : Nat := a >>> shAmt k
def ushl (a : Nat) (k : Int) : Nat := (a <<< shAmt k) % 4294967296
def uadd (a b : Nat) : Nat := (a + b) % 4294967296
def usub (a b : Nat) : Nat := (a + 4294967296 - b % 4294967296) % 4294967296

-- ====================================================================== bit patterns
def signBit (f : Fmt) : Nat := 2 ^ (f.mbits + f.ebits)
def isNeg (f : Fmt) (b : Nat) : Bool := decide (signBit f ≤ b)
/-- `fabs`: clear the sign bit -/
def fabs (f : Fmt) (b : Nat) : Nat := b % signBit f
/-- unary minus: flip the sign bit -/
def fneg (f : Fmt) (b : Nat) : Nat := if isNeg f b then b - signBit f else b + signBit f
def isNaN (f : Fmt) (b : Nat) : Bool := decide (f.infBits < fabs f b)
def isInf (f : Fmt) (b : Nat) : Bool := decide (fabs f b = f.infBits)
/-- the canonical quiet NaN (payloads are not modelled) -/
def qnan (f : Fmt) : Nat := f.infBits + 2 ^ (f.mbits - 1)
def withSign (f : Fmt) (neg : Bool) (mag : Nat) : Nat := if neg then mag + signBit f else mag

/-- a signed dyadic number `± m · 2^e` -/
structure SD where
  neg : Bool
  m : Nat
  e : Int
deriving Repr, DecidableEq

/-- exact value of a non-NaN bit pattern (an infinity decodes to `± 2^(emax+1)`, above every finite value:
    used by the comparisons only) -/
def toSD (f : Fmt) (b : Nat) : SD :=
  let p := decode f (fabs f b)
  ⟨isNeg f b, p.1, p.2⟩

/-- round a signed dyadic to the format; a zero keeps the sign it is given -/
def roundSD (f : Fmt) (s : SD) : Nat := withSign f s.neg (rne f (ofDyadic s.m s.e))

/-- exact sum; an exact zero from operands of opposite sign is `+0` (round-to-nearest), `(-0) + (-0) = -0` -/
def addSD (a b : SD) : SD :=
  let e := min a.e b.e
  let A := a.m * 2 ^ (a.e - e).toNat
  let B := b.m * 2 ^ (b.e - e).toNat
  if a.neg == b.neg then ⟨a.neg, A + B, e⟩
  else if B < A then ⟨a.neg, A - B, e⟩
  else if A < B then ⟨b.neg, B - A, e⟩
  else ⟨false, 0, e⟩

def fadd (f : Fmt) (a b : Nat) : Nat :=
  if isNaN f a || isNaN f b then qnan f
  else if isInf f a then (if isInf f b && (isNeg f a != isNeg f b) then qnan f else a)
  else if isInf f b then b
  else roundSD f (addSD (toSD f a) (toSD f b))

def fsub (f : Fmt) (a b : Nat) : Nat :=
  if isNaN f b then qnan f else fadd f a (fneg f b)

def fmul (f : Fmt) (a b : Nat) : Nat :=
  if isNaN f a || isNaN f b then qnan f
  else
    let neg := isNeg f a != isNeg f b
    if isInf f a || isInf f b then
      (if fabs f a = 0 || fabs f b = 0 then qnan f else withSign f neg f.infBits)
    else
      let x := toSD f a
      let y := toSD f b
      roundSD f ⟨neg, x.m * y.m, x.e + y.e⟩

def fdiv (f : Fmt) (a b : Nat) : Nat :=
  if isNaN f a || isNaN f b then qnan f
  else
    let neg := isNeg f a != isNeg f b
    if isInf f a then (if isInf f b then qnan f else withSign f neg f.infBits)
    else if isInf f b then withSign f neg 0
    else if fabs f b = 0 then (if fabs f a = 0 then qnan f else withSign f neg f.infBits)
    else
      let x := toSD f a
      let y := toSD f b
      let d := x.e - y.e
      let q : Q := if d ≥ 0 then ⟨x.m * 2 ^ d.toNat, y.m⟩ else ⟨x.m, y.m * 2 ^ (-d).toNat⟩
      withSign f neg (rne f q)

/-- `a < b` (IEEE: false on NaN, `-0 = +0`) -/
def flt (f : Fmt) (a b : Nat) : Bool :=
  if isNaN f a || isNaN f b then false
  else
    let x := toSD f a
    let y := toSD f b
    let e := min x.e y.e
    let A : Int := (x.m * 2 ^ (x.e - e).toNat : Nat)
    let B : Int := (y.m * 2 ^ (y.e - e).toNat : Nat)
    decide ((if x.neg then -A else A) < (if y.neg then -B else B))
def fgt (f : Fmt) (a b : Nat) : Bool := flt f b a
/-- `a <= b` -/
def fle (f : Fmt) (a b : Nat) : Bool :=
  if isNaN f a || isNaN f b then false else !(flt f b a)
def fge (f : Fmt) (a b : Nat) : Bool := fle f b a

/-- a decimal literal `d · 10^e` as the Rust compiler converts it (correctly rounded) -/
def lit (f : Fmt) (d : Nat) (e : Int) : Nat := rne f (ofDec d e)

/-- `n as f64` / `n as f32` for an `i32` (exact for f64; round-to-nearest-even for f32) -/
def ofI32 (f : Fmt) (n : Int) : Nat := withSign f (decide (n < 0)) (rne f ⟨n.natAbs, 1⟩)

/-- `x as i32` for a float: truncation toward zero, saturating, NaN ↦ 0 -/
def toI32 (f : Fmt) (b : Nat) : Int :=
  if isNaN f b then 0
  else
    let s := toSD f b
    let mag : Nat := if s.e ≥ 0 then s.m * 2 ^ s.e.toNat else s.m / 2 ^ (-s.e).toNat
    if s.neg then (if mag ≥ 2147483648 then -2147483648 else -(mag : Int))
    else (if mag ≥ 2147483647 then 2147483647 else (mag : Int))

/-- `sqrtd` / `sqrtf` at VALUE level: the correctly rounded square root (what the SSE2 instruction the crate
    uses on x86, and the portable bit-by-bit routine — "Return correctly rounded sqrt" — both compute; the
    bit-by-bit loop itself is not modelled statement by statement).  `sqrt(±0) = ±0`, `sqrt(+inf) = +inf`,
    negative or NaN ↦ `qnan`.  Method: make the exponent even, scale the significand by `2^120`, take the
    integer square root `q ≥ 2^60`; when the root is inexact the true value lies strictly between `q` and
    `q + 1`, hence on the same side of every rounding boundary (all of which are integers at this scale) as
    `q + 1/2`, which is what is handed to `rne`. -/
def fsqrt (f : Fmt) (b : Nat) : Nat :=
  if isNaN f b then qnan f
  else if fabs f b = 0 then b
  else if isNeg f b then qnan f
  else if isInf f b then b
  else
    let p := decode f b
    let odd : Bool := p.2 % 2 != 0
    let m := if odd then p.1 * 2 else p.1
    let e := if odd then p.2 - 1 else p.2
    let M := m * 2 ^ 120
    let q := Nat.sqrt M
    if q * q = M then rne f (ofDyadic q (e / 2 - 60)) else rne f (ofDyadic (2 * q + 1) (e / 2 - 61))

-- ====================================================================== f64 word access
def getHighWord (x : Nat) : Nat := x / 4294967296 % 4294967296
def getLowWord (x : Nat) : Nat := x % 4294967296
def withSetHighWord (x hi : Nat) : Nat := x % 4294967296 + (hi % 4294967296) * 4294967296
def withSetLowWord (x lo : Nat) : Nat := x / 4294967296 * 4294967296 + lo % 4294967296

-- ====================================================================== powd
namespace D
abbrev F : Fmt := Fmt.f64
def add := fadd F
def sub := fsub F
def mul := fmul F
def div := fdiv F
def one : Nat := lit F 10 (-1)
def zero : Nat := lit F 0 (-1)
def two : Nat := lit F 20 (-1)
def three : Nat := lit F 30 (-1)
def half : Nat := lit F 5 (-1)
def quarter : Nat := lit F 25 (-2)
/-- `0.3333333333333333333333` -/
def third : Nat := lit F 3333333333333333333333 (-22)
def negOne : Nat := fneg F one
/-- `1.0`  -/
def BP0 : Nat := lit F 10 (-1)
/-- `1.5`  -/
def BP1 : Nat := lit F 15 (-1)
/-- `0.0`  -/
def DP_H0 : Nat := lit F 0 (-1)
/-- `5.84962487220764160156e-01` 0x3fe2b803_40000000 -/
def DP_H1 : Nat := lit F 584962487220764160156 (-21)
/-- `0.0`  -/
def DP_L0 : Nat := lit F 0 (-1)
/-- `1.35003920212974897128e-08` 0x3E4CFDEB, 0x43CFD006 -/
def DP_L1 : Nat := lit F 135003920212974897128 (-28)
/-- `9007199254740992.0` 0x43400000_00000000 -/
def TWO53 : Nat := lit F 90071992547409920 (-1)
/-- `1.0e300`  -/
def HUGE : Nat := lit F 10 (299)
/-- `1.0e-300`  -/
def TINY : Nat := lit F 10 (-301)
/-- `5.99999999999994648725e-01` 0x3fe33333_33333303 -/
def L1 : Nat := lit F 599999999999994648725 (-21)
/-- `4.28571428578550184252e-01` 0x3fdb6db6_db6fabff -/
def L2 : Nat := lit F 428571428578550184252 (-21)
/-- `3.33333329818377432918e-01` 0x3fd55555_518f264d -/
def L3 : Nat := lit F 333333329818377432918 (-21)
/-- `2.72728123808534006489e-01` 0x3fd17460_a91d4101 -/
def L4 : Nat := lit F 272728123808534006489 (-21)
/-- `2.30660745775561754067e-01` 0x3fcd864a_93c9db65 -/
def L5 : Nat := lit F 230660745775561754067 (-21)
/-- `2.06975017800338417784e-01` 0x3fca7e28_4a454eef -/
def L6 : Nat := lit F 206975017800338417784 (-21)
/-- `1.66666666666666019037e-01` 0x3fc55555_5555553e -/
def P1 : Nat := lit F 166666666666666019037 (-21)
/-- `-2.77777777770155933842e-03` 0xbf66c16c_16bebd93 -/
def P2 : Nat := fneg F (lit F 277777777770155933842 (-23))
/-- `6.61375632143793436117e-05` 0x3f11566a_af25de2c -/
def P3 : Nat := lit F 661375632143793436117 (-25)
/-- `-1.65339022054652515390e-06` 0xbebbbd41_c5d26bf1 -/
def P4 : Nat := fneg F (lit F 165339022054652515390 (-26))
/-- `4.13813679705723846039e-08` 0x3e663769_72bea4d0 -/
def P5 : Nat := lit F 413813679705723846039 (-28)
/-- `6.93147180559945286227e-01` 0x3fe62e42_fefa39ef -/
def LG2 : Nat := lit F 693147180559945286227 (-21)
/-- `6.93147182464599609375e-01` 0x3fe62e43_00000000 -/
def LG2_H : Nat := lit F 693147182464599609375 (-21)
/-- `-1.90465429995776804525e-09` 0xbe205c61_0ca86c39 -/
def LG2_L : Nat := fneg F (lit F 190465429995776804525 (-29))
/-- `8.0085662595372944372e-017` -(1024-log2(ovfl+.5ulp)) -/
def OVT : Nat := lit F 80085662595372944372 (-36)
/-- `9.61796693925975554329e-01` 0x3feec709_dc3a03fd =2/(3ln2) -/
def CP : Nat := lit F 961796693925975554329 (-21)
/-- `9.61796700954437255859e-01` 0x3feec709_e0000000 =(float)cp -/
def CP_H : Nat := lit F 961796700954437255859 (-21)
/-- `-7.02846165095275826516e-09` 0xbe3e2fe0_145b01f5 =tail of cp_h -/
def CP_L : Nat := fneg F (lit F 702846165095275826516 (-29))
/-- `1.44269504088896338700e+00` 0x3ff71547_652b82fe =1/ln2 -/
def IVLN2 : Nat := lit F 144269504088896338700 (-20)
/-- `1.44269502162933349609e+00` 0x3ff71547_60000000 =24b 1/ln2 -/
def IVLN2_H : Nat := lit F 144269502162933349609 (-20)
/-- `1.92596299112661746887e-08` 0x3e54ae0b_f85ddf44 =1/ln2 tail -/
def IVLN2_L : Nat := lit F 192596299112661746887 (-28)

/-- `scalbnd(x, n)` -/
def scalbnd (x : Nat) (n : Int) : Nat :=
  let x1p1023 : Nat := 0x7fe0000000000000
  let x1p53 : Nat := 0x4340000000000000
  let x1p_1022 : Nat := 0x0010000000000000
  let yn : Nat × Int :=
    if n > 1023 then
      let y := mul x x1p1023
      let n := isub n 1023
      if n > 1023 then
        let y := mul y x1p1023
        let n := isub n 1023
        if n > 1023 then (y, 1023) else (y, n)
      else (y, n)
    else if n < -1022 then
      let c := mul x1p_1022 x1p53
      let y := mul x c
      let n := iadd n (1022 - 53)
      if n < -1022 then
        let y := mul y c
        let n := iadd n (1022 - 53)
        if n < -1022 then (y, -1022) else (y, n)
      else (y, n)
    else (x, n)
  -- `f64::from_bits(((0x3ff + n) as u64) << 52)`
  mul yn.1 (((iadd 0x3ff yn.2) % 18446744073709551616).toNat * 4503599627370496 % 18446744073709551616)

/-- `yisint` (only consulted when `x < 0`): 0 = not an integer, 1 = odd, 2 = even -/
def yisint (hx iy : Int) (ly : Nat) : Int :=
  if hx < 0 then
    if iy ≥ 0x43400000 then 2
    else if iy ≥ 0x3ff00000 then
      let k := isub (ishr iy 20) 0x3ff
      if k > 20 then
        let j := i32 (ushr ly (isub 52 k))
        if ishl j (isub 52 k) = i32 ly then isub 2 (iand j 1) else 0
      else if ly = 0 then
        let j := ishr iy (isub 20 k)
        if ishl j (isub 20 k) = iy then isub 2 (iand j 1) else 0
      else 0
    else 0
  else 0

/-- the tail of `powd` after the over/underflow tests: `2^(p_h+p_l)` and the final scaling -/
def powExp2 (s p_l p_h : Nat) (j : Int) : Option Nat :=
  let i := iand j 0x7fffffff
  let k := isub (ishr i 20) 0x3ff
  let big : Bool := decide (i > 0x3fe00000)
  -- inside `if i > 0x3fe00000 { … }`
  let n1 := iadd j (ishr 0x00100000 (iadd k 1))
  let k1 := isub (ishr (iand n1 0x7fffffff) 20) 0x3ff
  let tt := withSetHighWord zero (u32 (iand n1 (inot (ishr 0x000fffff k1))))
  let n2 := ishr (ior (iand n1 0x000fffff) 0x00100000) (isub 20 k1)
  let n3 := if j < 0 then ineg n2 else n2
  -- after it
  let n : Int := if big then n3 else 0
  let p_h := if big then sub p_h tt else p_h
  let t := withSetLowWord (add p_l p_h) 0
  let u := mul t LG2_H
  let v := add (mul (sub p_l (sub t p_h)) LG2) (mul t LG2_L)
  let z := add u v
  let w := sub v (sub z u)
  let t := mul z z
  let t1 := sub z (mul t (add P1 (mul t (add P2 (mul t (add P3 (mul t (add P4 (mul t P5)))))))))
  let r := sub (div (mul z t1) (sub t1 two)) (add w (mul z w))
  let z := sub one (sub r z)
  let j := iadd (i32 (getHighWord z)) (ishl n 20)
  let z := if ishr j 20 ≤ 0 then scalbnd z n else withSetHighWord z (u32 j)
  some (mul s z)

/-- `powd` from "split up y into y1+y2 and compute (y1+y2)*(t1+t2)" on -/
def powExp (s y t1 t2 : Nat) : Option Nat :=
  let y1 := withSetLowWord y 0
  let p_l := add (mul (sub y y1) t1) (mul y t2)
  let p_h := mul y1 t1
  let z := add p_l p_h
  let j : Int := i32 (getHighWord z)
  let i : Int := i32 (getLowWord z)
  let ovf := some (mul (mul s HUGE) HUGE)
  let unf := some (mul (mul s TINY) TINY)
  if j ≥ 0x40900000 then
    if ior (isub j 0x40900000) i ≠ 0 then ovf
    else if fgt F (add p_l OVT) (sub z p_h) then ovf
    else powExp2 s p_l p_h j
  else if iand j 0x7fffffff ≥ 0x4090cc00 then
    if (usub (u32 j) 0xc090cc00 ||| u32 i) ≠ 0 then unf
    else if fle F p_l (sub z p_h) then unf
    else powExp2 s p_l p_h j
  else powExp2 s p_l p_h j

/-- the `|y| ≤ 2^31` computation of `log2(ax) = t1 + t2` -/
def powLog2 (ax : Nat) (ix : Int) : Nat × Nat :=
  let sn : Bool := decide (ix < 0x00100000)
  let ax := if sn then mul ax TWO53 else ax
  let n : Int := if sn then isub 0 53 else 0
  let ix : Int := if sn then i32 (getHighWord ax) else ix
  let n := iadd n (isub (ishr ix 20) 0x3ff)
  let j := iand ix 0x000fffff
  let ix := ior j 0x3ff00000
  let c0 : Bool := decide (j ≤ 0x3988E)
  let c1 : Bool := decide (j < 0xBB67A)
  let k : Int := if c0 then 0 else if c1 then 1 else 0
  let n := if c0 then n else if c1 then n else iadd n 1
  let ix := if c0 then ix else if c1 then ix else isub ix 0x00100000
  let ax := withSetHighWord ax (u32 ix)
  let bp := if k = 0 then BP0 else BP1
  let dp_h := if k = 0 then DP_H0 else DP_H1
  let dp_l := if k = 0 then DP_L0 else DP_L1
  let u := sub ax bp
  let v := div one (add ax bp)
  let ss := mul u v
  let s_h := withSetLowWord ss 0
  let t_h := withSetHighWord zero
    (uadd (uadd (ushr (u32 ix) 1 ||| 0x20000000) 0x00080000) (ushl (u32 k) 18))
  let t_l := sub ax (sub t_h bp)
  let s_l := mul v (sub (sub u (mul s_h t_h)) (mul s_h t_l))
  let s2 := mul ss ss
  let r := mul (mul s2 s2)
    (add L1 (mul s2 (add L2 (mul s2 (add L3 (mul s2 (add L4 (mul s2 (add L5 (mul s2 L6))))))))))
  let r := add r (mul s_l (add s_h ss))
  let s2 := mul s_h s_h
  let t_h := withSetLowWord (add (add three s2) r) 0
  let t_l := sub r (sub (sub t_h three) s2)
  let u := mul s_h t_h
  let v := add (mul s_l t_h) (mul t_l ss)
  let p_h := withSetLowWord (add u v) 0
  let p_l := sub v (sub p_h u)
  let z_h := mul CP_H p_h
  let z_l := add (add (mul CP_L p_h) (mul p_l CP)) dp_l
  let t := ofI32 F n
  let t1 := withSetLowWord (add (add (add z_h z_l) dp_h) t) 0
  let t2 := sub z_l (sub (sub (sub t1 t) dp_h) z_h)
  (t1, t2)

/-- `powd(x, y)` on bit patterns; `none` = NaN result -/
def pow (x y : Nat) : Option Nat :=
  let hx : Int := i32 (getHighWord x)
  let lx : Nat := getLowWord x
  let hy : Int := i32 (getHighWord y)
  let ly : Nat := getLowWord y
  let ix : Int := iand hx 0x7fffffff
  let iy : Int := iand hy 0x7fffffff
  if (u32 iy ||| ly) = 0 then some one
  else if hx = 0x3ff00000 ∧ lx = 0 then some one
  else if ix > 0x7ff00000 ∨ (ix = 0x7ff00000 ∧ lx ≠ 0) ∨ iy > 0x7ff00000 ∨ (iy = 0x7ff00000 ∧ ly ≠ 0) then
    none -- `x + y` (NaN)
  else
  let yi := yisint hx iy ly
  if ly = 0 ∧ iy = 0x7ff00000 then
    if ior (isub ix 0x3ff00000) (i32 lx) = 0 then some one
    else if ix ≥ 0x3ff00000 then (if hy ≥ 0 then some y else some zero)
    else (if hy ≥ 0 then some zero else some (fneg F y))
  else if ly = 0 ∧ iy = 0x3ff00000 then
    (if hy ≥ 0 then some x else some (div one x))
  else if ly = 0 ∧ hy = 0x40000000 then some (mul x x)
  else if ly = 0 ∧ hy = 0x3fe00000 ∧ hx ≥ 0 then some (fsqrt F x) -- `sqrtd(x)`
  else
  let ax := fabs F x
  if lx = 0 ∧ (ix = 0x7ff00000 ∨ ix = 0 ∨ ix = 0x3ff00000) then
    let z := if hy < 0 then div one ax else ax
    if hx < 0 then
      if ior (isub ix 0x3ff00000) yi = 0 then none -- `(z - z) / (z - z)` (NaN)
      else if yi = 1 then some (fneg F z)
      else some z
    else some z
  else if hx < 0 ∧ yi = 0 then none -- `(x - x) / (x - x)` (NaN)
  else
  let s := if hx < 0 ∧ yi = 1 then negOne else one
  if iy > 0x41e00000 then
    if iy > 0x43f00000 ∧ ix ≤ 0x3fefffff then
      some (if hy < 0 then mul HUGE HUGE else mul TINY TINY)
    else if iy > 0x43f00000 ∧ ix ≥ 0x3ff00000 then
      some (if hy > 0 then mul HUGE HUGE else mul TINY TINY)
    else if ix < 0x3fefffff then
      some (if hy < 0 then mul (mul s HUGE) HUGE else mul (mul s TINY) TINY)
    else if ix > 0x3ff00000 then
      some (if hy > 0 then mul (mul s HUGE) HUGE else mul (mul s TINY) TINY)
    else
      let t := sub ax one
      let w := mul (mul t t) (sub half (mul t (sub third (mul t quarter))))
      let u := mul IVLN2_H t
      let v := sub (mul t IVLN2_L) (mul w IVLN2)
      let t1 := withSetLowWord (add u v) 0
      let t2 := sub v (sub t1 u)
      powExp s y t1 t2
  else
    let tt := powLog2 ax ix
    powExp s y tt.1 tt.2
end D

/-- `powd(x, y)`: arguments and result are `f64::to_bits` patterns -/
def powd (x y : Nat) : Option Nat := D.pow x y
def scalbnd (x : Nat) (n : Int) : Nat := D.scalbnd x n

-- ====================================================================== powf
namespace S
abbrev F : Fmt := Fmt.f32
def add := fadd F
def sub := fsub F
def mul := fmul F
def div := fdiv F
def one : Nat := lit F 10 (-1)
def zero : Nat := lit F 0 (-1)
def two : Nat := lit F 20 (-1)
def three : Nat := lit F 30 (-1)
def half : Nat := lit F 5 (-1)
def quarter : Nat := lit F 25 (-2)
/-- `0.333333333333` -/
def third : Nat := lit F 333333333333 (-12)
def negOne : Nat := fneg F one
/-- `f32::from_bits(b & mask)` -/
def mask (b m : Nat) : Nat := b &&& m
/-- `1.0`  -/
def BP0 : Nat := lit F 10 (-1)
/-- `1.5`  -/
def BP1 : Nat := lit F 15 (-1)
/-- `0.0`  -/
def DP_H0 : Nat := lit F 0 (-1)
/-- `5.84960938e-01` 0x3f15c000 -/
def DP_H1 : Nat := lit F 584960938 (-9)
/-- `0.0`  -/
def DP_L0 : Nat := lit F 0 (-1)
/-- `1.56322085e-06` 0x35d1cfdc -/
def DP_L1 : Nat := lit F 156322085 (-14)
/-- `16777216.0` 0x4b800000 -/
def TWO24 : Nat := lit F 167772160 (-1)
/-- `1.0e30`  -/
def HUGE : Nat := lit F 10 (29)
/-- `1.0e-30`  -/
def TINY : Nat := lit F 10 (-31)
/-- `6.0000002384e-01` 0x3f19999a -/
def L1 : Nat := lit F 60000002384 (-11)
/-- `4.2857143283e-01` 0x3edb6db7 -/
def L2 : Nat := lit F 42857143283 (-11)
/-- `3.3333334327e-01` 0x3eaaaaab -/
def L3 : Nat := lit F 33333334327 (-11)
/-- `2.7272811532e-01` 0x3e8ba305 -/
def L4 : Nat := lit F 27272811532 (-11)
/-- `2.3066075146e-01` 0x3e6c3255 -/
def L5 : Nat := lit F 23066075146 (-11)
/-- `2.0697501302e-01` 0x3e53f142 -/
def L6 : Nat := lit F 20697501302 (-11)
/-- `1.6666667163e-01` 0x3e2aaaab -/
def P1 : Nat := lit F 16666667163 (-11)
/-- `-2.7777778450e-03` 0xbb360b61 -/
def P2 : Nat := fneg F (lit F 27777778450 (-13))
/-- `6.6137559770e-05` 0x388ab355 -/
def P3 : Nat := lit F 66137559770 (-15)
/-- `-1.6533901999e-06` 0xb5ddea0e -/
def P4 : Nat := fneg F (lit F 16533901999 (-16))
/-- `4.1381369442e-08` 0x3331bb4c -/
def P5 : Nat := lit F 41381369442 (-18)
/-- `6.9314718246e-01` 0x3f317218 -/
def LG2 : Nat := lit F 69314718246 (-11)
/-- `6.93145752e-01` 0x3f317200 -/
def LG2_H : Nat := lit F 693145752 (-9)
/-- `1.42860654e-06` 0x35bfbe8c -/
def LG2_L : Nat := lit F 142860654 (-14)
/-- `4.2995665694e-08` -(128-log2(ovfl+.5ulp)) -/
def OVT : Nat := lit F 42995665694 (-18)
/-- `9.6179670095e-01` 0x3f76384f =2/(3ln2) -/
def CP : Nat := lit F 96179670095 (-11)
/-- `9.6191406250e-01` 0x3f764000 =12b cp -/
def CP_H : Nat := lit F 96191406250 (-11)
/-- `-1.1736857402e-04` 0xb8f623c6 =tail of cp_h -/
def CP_L : Nat := fneg F (lit F 11736857402 (-14))
/-- `1.4426950216e+00`  -/
def IVLN2 : Nat := lit F 14426950216 (-10)
/-- `1.4426879883e+00`  -/
def IVLN2_H : Nat := lit F 14426879883 (-10)
/-- `7.0526075433e-06`  -/
def IVLN2_L : Nat := lit F 70526075433 (-16)

/-- `scalbnf(x, n)` -/
def scalbnf (x : Nat) (n : Int) : Nat :=
  let x1p127 : Nat := 0x7f000000
  let x1p_126 : Nat := 0x800000
  let x1p24 : Nat := 0x4b800000
  let yn : Nat × Int :=
    if n > 127 then
      let y := mul x x1p127
      let n := isub n 127
      if n > 127 then
        let y := mul y x1p127
        let n := isub n 127
        if n > 127 then (y, 127) else (y, n)
      else (y, n)
    else if n < -126 then
      let c := mul x1p_126 x1p24
      let y := mul x c
      let n := iadd n (126 - 24)
      if n < -126 then
        let y := mul y c
        let n := iadd n (126 - 24)
        if n < -126 then (y, -126) else (y, n)
      else (y, n)
    else (x, n)
  -- `f32::from_bits(((0x7f + n) as u32) << 23)`
  mul yn.1 (ushl (u32 (iadd 0x7f yn.2)) 23)

/-- `yisint` (only consulted when `x < 0`) -/
def yisint (hx iy : Int) : Int :=
  if hx < 0 then
    if iy ≥ 0x4b800000 then 2
    else if iy ≥ 0x3f800000 then
      let k := isub (ishr iy 23) 0x7f
      let j := ishr iy (isub 23 k)
      if ishl j (isub 23 k) = iy then isub 2 (iand j 1) else 0
    else 0
  else 0

/-- `2^(p_h+p_l)` and the final scaling -/
def powExp2 (sn p_l p_h : Nat) (j : Int) : Option Nat :=
  let i := iand j 0x7fffffff
  let k := isub (ishr i 23) 0x7f
  let big : Bool := decide (i > 0x3f000000)
  let n1 := iadd j (ishr 0x00800000 (iadd k 1))
  let k1 := isub (ishr (iand n1 0x7fffffff) 23) 0x7f
  let tt := u32 n1 &&& u32 (inot (ishr 0x007fffff k1))
  let n2 := ishr (ior (iand n1 0x007fffff) 0x00800000) (isub 23 k1)
  let n3 := if j < 0 then ineg n2 else n2
  let n : Int := if big then n3 else 0
  let p_h := if big then sub p_h tt else p_h
  let t := mask (add p_l p_h) 0xffff8000
  let u := mul t LG2_H
  let v := add (mul (sub p_l (sub t p_h)) LG2) (mul t LG2_L)
  let z := add u v
  let w := sub v (sub z u)
  let t := mul z z
  let t1 := sub z (mul t (add P1 (mul t (add P2 (mul t (add P3 (mul t (add P4 (mul t P5)))))))))
  let r := sub (div (mul z t1) (sub t1 two)) (add w (mul z w))
  let z := sub one (sub r z)
  let j := iadd (i32 z) (ishl n 23)
  let z := if ishr j 23 ≤ 0 then scalbnf z n else u32 j
  some (mul sn z)

/-- from "split up y into y1+y2" on -/
def powExp (sn y t1 t2 : Nat) : Option Nat :=
  let y1 := mask y 0xfffff000
  let p_l := add (mul (sub y y1) t1) (mul y t2)
  let p_h := mul y1 t1
  let z := add p_l p_h
  let j : Int := i32 z
  let ovf := some (mul (mul sn HUGE) HUGE)
  let unf := some (mul (mul sn TINY) TINY)
  if j > 0x43000000 then ovf
  else if j = 0x43000000 then
    (if fgt F (add p_l OVT) (sub z p_h) then ovf else powExp2 sn p_l p_h j)
  else if iand j 0x7fffffff > 0x43160000 then unf
  else if u32 j = 0xc3160000 ∧ fle F p_l (sub z p_h) = true then unf
  else powExp2 sn p_l p_h j

/-- the `|y| ≤ 2^27` computation of `log2(ax) = t1 + t2` -/
def powLog2 (ax : Nat) (ix : Int) : Nat × Nat :=
  let sb : Bool := decide (ix < 0x00800000)
  let ax := if sb then mul ax TWO24 else ax
  let n : Int := if sb then isub 0 24 else 0
  let ix : Int := if sb then i32 ax else ix
  let n := iadd n (isub (ishr ix 23) 0x7f)
  let j := iand ix 0x007fffff
  let ix := ior j 0x3f800000
  let c0 : Bool := decide (j ≤ 0x1cc471)
  let c1 : Bool := decide (j < 0x5db3d7)
  let k : Int := if c0 then 0 else if c1 then 1 else 0
  let n := if c0 then n else if c1 then n else iadd n 1
  let ix := if c0 then ix else if c1 then ix else isub ix 0x00800000
  let ax := u32 ix
  let bp := if k = 0 then BP0 else BP1
  let dp_h := if k = 0 then DP_H0 else DP_H1
  let dp_l := if k = 0 then DP_L0 else DP_L1
  let u := sub ax bp
  let v := div one (add ax bp)
  let s := mul u v
  let s_h := mask s 0xfffff000
  let is := (ushr (u32 ix) 1 &&& 0xfffff000) ||| 0x20000000
  let t_h := uadd (uadd is 0x00400000) (ushl (u32 k) 21)
  let t_l := sub ax (sub t_h bp)
  let s_l := mul v (sub (sub u (mul s_h t_h)) (mul s_h t_l))
  let s2 := mul s s
  let r := mul (mul s2 s2)
    (add L1 (mul s2 (add L2 (mul s2 (add L3 (mul s2 (add L4 (mul s2 (add L5 (mul s2 L6))))))))))
  let r := add r (mul s_l (add s_h s))
  let s2 := mul s_h s_h
  let t_h := mask (add (add three s2) r) 0xfffff000
  let t_l := sub r (sub (sub t_h three) s2)
  let u := mul s_h t_h
  let v := add (mul s_l t_h) (mul t_l s)
  let p_h := mask (add u v) 0xfffff000
  let p_l := sub v (sub p_h u)
  let z_h := mul CP_H p_h
  let z_l := add (add (mul CP_L p_h) (mul p_l CP)) dp_l
  let t := ofI32 F n
  let t1 := mask (add (add (add z_h z_l) dp_h) t) 0xfffff000
  let t2 := sub z_l (sub (sub (sub t1 t) dp_h) z_h)
  (t1, t2)

/-- `powf(x, y)` on bit patterns; `none` = NaN result -/
def pow (x y : Nat) : Option Nat :=
  let hx : Int := i32 x
  let hy : Int := i32 y
  let ix : Int := iand hx 0x7fffffff
  let iy : Int := iand hy 0x7fffffff
  if iy = 0 then some one
  else if hx = 0x3f800000 then some one
  else if ix > 0x7f800000 ∨ iy > 0x7f800000 then none -- `x + y` (NaN)
  else
  let yi := yisint hx iy
  if iy = 0x7f800000 then
    if ix = 0x3f800000 then some one
    else if ix > 0x3f800000 then (if hy ≥ 0 then some y else some zero)
    else (if hy ≥ 0 then some zero else some (fneg F y))
  else if iy = 0x3f800000 then (if hy ≥ 0 then some x else some (div one x))
  else if hy = 0x40000000 then some (mul x x)
  else if hy = 0x3f000000 ∧ hx ≥ 0 then some (fsqrt F x) -- `sqrtf(x)`
  else
  let ax := fabs F x
  if ix = 0x7f800000 ∨ ix = 0 ∨ ix = 0x3f800000 then
    let z := if hy < 0 then div one ax else ax
    if hx < 0 then
      if ior (isub ix 0x3f800000) yi = 0 then none -- `(z - z) / (z - z)` (NaN)
      else if yi = 1 then some (fneg F z)
      else some z
    else some z
  else if hx < 0 ∧ yi = 0 then none -- `(x - x) / (x - x)` (NaN)
  else
  let sn := if hx < 0 ∧ yi = 1 then negOne else one
  if iy > 0x4d000000 then
    if ix < 0x3f7ffff8 then
      some (if hy < 0 then mul (mul sn HUGE) HUGE else mul (mul sn TINY) TINY)
    else if ix > 0x3f800007 then
      some (if hy > 0 then mul (mul sn HUGE) HUGE else mul (mul sn TINY) TINY)
    else
      let t := sub ax one
      let w := mul (mul t t) (sub half (mul t (sub third (mul t quarter))))
      let u := mul IVLN2_H t
      let v := sub (mul t IVLN2_L) (mul w IVLN2)
      let t1 := mask (add u v) 0xfffff000
      let t2 := sub v (sub t1 u)
      powExp sn y t1 t2
  else
    let tt := powLog2 ax ix
    powExp sn y tt.1 tt.2
end S

/-- `powf(x, y)`: arguments and result are `f32::to_bits` patterns -/
def powf (x y : Nat) : Option Nat := S.pow x y
def scalbnf (x : Nat) (n : Int) : Nat := S.scalbnf x n

end MinLex.Libm
