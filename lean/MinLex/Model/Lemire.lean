/-
  Model of src/lemire.rs (Eisel-Lemire), default (non-compact) builds.
  Release semantics (wrapping); `none` = a panic that also happens in release builds
  (table index out of range).  `…Traps` = a debug-assertion / overflow-check build would panic.
-/
import MinLex.Model.Num
namespace MinLex

structure LemireTables where
  smallestPowerOfFive : Int
  largestPowerOfFive : Int
  powerOfFive128 : List (Nat × Nat)

/-- `lemire::power`: `(q.wrapping_mul(152_170 + 65536) >> 16) + 63` -/
def power (q : Int) : Int := wrapI32 (q * 217706) / 65536 + 63

/-- `full_multiplication(a, b)` → (lo, hi) -/
def fullMultiplication (a b : Nat) : Nat × Nat := let r := a * b; (r % u64Mod, r / u64Mod)

/-- `compute_product_approx(q, w, precision)` → (lo, hi); `none` = index panic -/
def computeProductApprox (T : LemireTables) (q : Int) (w : Nat) (precision : Nat) : Option (Nat × Nat) :=
  let mask := if precision < 64 then u64Max >>> precision else u64Max
  let idx := q - T.smallestPowerOfFive
  if idx < 0 then none else
  match T.powerOfFive128[idx.toNat]? with
  | none => none
  | some (lo5, hi5) =>
    let first := fullMultiplication w lo5
    if first.2 &&& mask == mask then
      let second := fullMultiplication w hi5
      let firstLo := (first.1 + second.2) % u64Mod
      let firstHi := if second.2 > firstLo then first.2 + 1 else first.2
      some (firstLo, firstHi)
    else some first

/-- `compute_error_scaled::<F>(q, w, lz)` -/
def computeErrorScaled (F : FloatC) (q : Int) (w : Nat) (lz : Int) : ExtFloat :=
  let hilz : Nat := if w / 9223372036854775808 % 2 = 1 then 0 else 1
  let w' := (w * 2^hilz) % u64Mod
  let power2 := power q + F.exponentBias - hilz - lz - 62
  ⟨w', power2 + F.invalidFp⟩

/-- `compute_error::<F>(q, w)` -/
def computeError (T : LemireTables) (F : FloatC) (q : Int) (w : Nat) : Option ExtFloat :=
  let lz := clz64 w
  let w' := shl64' w lz
  match computeProductApprox T q w' (F.mantissaSize + 3) with
  | none => none
  | some p => some (computeErrorScaled F q p.2 lz)
where
  /-- release `w <<= lz` (shift amount taken mod 64) -/
  shl64' (x n : Nat) : Nat := (x * 2^(n % 64)) % u64Mod

/-- `compute_float::<F>(q, w)` -/
def computeFloat (T : LemireTables) (F : FloatC) (q : Int) (w : Nat) : Option ExtFloat :=
  let fpZero : ExtFloat := ⟨0, 0⟩
  let fpInf : ExtFloat := ⟨0, F.infinitePower⟩
  if w = 0 ∨ q < F.smallestPowerOfTen then some fpZero
  else if q > F.largestPowerOfTen then some fpInf
  else
    let lz := clz64 w
    let w' := (w * 2^lz) % u64Mod
    match computeProductApprox T q w' (F.mantissaSize + 3) with
    | none => none
    | some (lo, hi) =>
      if lo = u64Max ∧ ¬ (q ≥ -27 ∧ q ≤ 55) then some (computeErrorScaled F q hi lz)
      else
        let upperbit := hi / 9223372036854775808
        let sh := upperbit + 64 - F.mantissaSize - 3
        let mantissa := hi >>> sh
        let power2 : Int := power q + upperbit - lz - F.minimumExponent
        if power2 ≤ 0 then
          if -power2 + 1 ≥ 64 then some fpZero
          else
            let m1 := mantissa >>> (-power2 + 1).toNat
            let m2 := m1 + m1 % 2
            let m3 := m2 >>> 1
            some ⟨m3, if m3 ≥ 2^F.mantissaSize then 1 else 0⟩
        else
          let m0 :=
            if lo ≤ 1 ∧ q ≥ F.minExponentRoundToEven ∧ q ≤ F.maxExponentRoundToEven
                ∧ mantissa % 4 = 1 ∧ (mantissa <<< sh) % u64Mod = hi
            then mantissa - mantissa % 2 else mantissa
          let m1 := m0 + m0 % 2
          let m2 := m1 >>> 1
          let (m3, p3) := if m2 ≥ 2 * 2^F.mantissaSize then (2^F.mantissaSize, power2 + 1) else (m2, power2)
          let m4 := if m3 / 2^F.mantissaSize % 2 = 1 then m3 - 2^F.mantissaSize else m3
          if p3 ≥ F.infinitePower then some fpInf else some ⟨m4, p3⟩

/-- `lemire::<F>(num)` -/
def lemire (T : LemireTables) (F : FloatC) (num : Number) : Option ExtFloat :=
  match computeFloat T F num.exponent num.mantissa with
  | none => none
  | some fp =>
    if num.manyDigits ∧ fp.exp ≥ 0 then
      match computeFloat T F num.exponent ((num.mantissa + 1) % u64Mod) with
      | none => none
      | some fp' => if fp != fp' then computeError T F num.exponent num.mantissa else some fp
    else some fp

/-- Points where a checked build traps in `lemire`: `mantissa + 1` overflow, and `w <<= 64` in
    `compute_error` when `w = 0`. -/
def lemireTraps (T : LemireTables) (F : FloatC) (num : Number) : Bool :=
  match computeFloat T F num.exponent num.mantissa with
  | none => false
  | some fp =>
    if num.manyDigits ∧ fp.exp ≥ 0 then
      if num.mantissa = u64Max then true
      else
        match computeFloat T F num.exponent (num.mantissa + 1) with
        | none => false
        | some fp' => fp != fp' && num.mantissa == 0
    else false

end MinLex
