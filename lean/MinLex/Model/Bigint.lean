/-
  Model of src/bigint.rs, src/stackvec.rs and src/heapvec.rs (abstract level):
  a big integer is a little-endian `List Nat` of 64-bit limbs; the storage back-end is a
  capacity `some 62` (StackVec) or `none` (HeapVec, unbounded).
-/
import MinLex.Model.Num
namespace MinLex

abbrev Big := List Nat

/-- limb base 2^64 -/
def B : Nat := 18446744073709551616

/-- Numeric value of a little-endian limb list. -/
def toNat : Big → Nat
  | [] => 0
  | x :: xs => x + B * toNat xs

def AllLt (xs : Big) : Prop := ∀ x ∈ xs, x < B
def allLtB (xs : Big) : Bool := xs.all (fun x => decide (x < B))

/-- fits the back-end: `none` = heap (unbounded), `some c` = stack with `c` limbs -/
def capOk (cap : Option Nat) (n : Nat) : Bool :=
  match cap with
  | none => true
  | some c => decide (n ≤ c)

-- ---------------------------------------------------------------- vector primitives
def vecTryPush (cap : Option Nat) (x : Big) (v : Nat) : Option Big :=
  if capOk cap (x.length + 1) then some (x ++ [v]) else none

def vecPop (x : Big) : Option (Nat × Big) :=
  match x.getLast? with
  | none => none
  | some v => some (v, x.dropLast)

def vecTryExtend (cap : Option Nat) (x : Big) (s : Big) : Option Big :=
  if capOk cap (x.length + s.length) then some (x ++ s) else none

def vecTryFrom (cap : Option Nat) (s : Big) : Option Big := vecTryExtend cap [] s

def vecTryResize (cap : Option Nat) (x : Big) (len : Nat) (v : Nat) : Option Big :=
  if capOk cap len then
    some (if len > x.length then x ++ List.replicate (len - x.length) v else x.take len)
  else none

-- ---------------------------------------------------------------- compare / normalize
/-- compare two equally long limb lists from the most significant end; input reversed (MS first) -/
def cmpRev : List Nat → List Nat → Ordering
  | x :: xs, y :: ys => if x < y then .lt else if x > y then .gt else cmpRev xs ys
  | _, _ => .eq

/-- `bigint::compare` -/
def bigCompare (x y : Big) : Ordering :=
  if x.length < y.length then .lt
  else if x.length > y.length then .gt
  else cmpRev x.reverse y.reverse

/-- drop leading zeros of a most-significant-first list -/
def dropZerosRev : List Nat → List Nat
  | [] => []
  | x :: xs => if x = 0 then dropZerosRev xs else x :: xs

/-- `bigint::normalize` -/
def normalize (x : Big) : Big := (dropZerosRev x.reverse).reverse

/-- `bigint::is_normalized` -/
def isNormalized (x : Big) : Bool :=
  match x.getLast? with
  | some 0 => false
  | _ => true

/-- `bigint::from_u64` (64-bit limbs) -/
def fromU64 (v : Nat) : Big := normalize [v]

-- ---------------------------------------------------------------- scalar
def scalarAdd (x y : Nat) : Nat × Bool := ((x + y) % B, decide (x + y ≥ B))
def scalarMul (x y carry : Nat) : Nat × Nat := let z := x * y + carry; (z % B, z / B)

-- ---------------------------------------------------------------- small
/-- carry propagation of `small_add_from` over the limbs at and after `start` -/
def smallAddAux (carry : Nat) : List Nat → List Nat × Nat
  | [] => ([], carry)
  | x :: xs =>
    if carry = 0 then (x :: xs, 0)
    else
      let s := x + carry
      let r := smallAddAux (s / B) xs
      ((s % B) :: r.1, r.2)

/-- `bigint::small_add_from` -/
def smallAddFrom (cap : Option Nat) (x : Big) (y : Nat) (start : Nat) : Option Big :=
  let r := smallAddAux y (x.drop start)
  let x' := x.take start ++ r.1
  if r.2 ≠ 0 then vecTryPush cap x' r.2 else some x'

/-- `bigint::small_add` -/
def smallAdd (cap : Option Nat) (x : Big) (y : Nat) : Option Big := smallAddFrom cap x y 0

def smallMulAux (y : Nat) : Nat → List Nat → List Nat × Nat
  | c, [] => ([], c)
  | c, x :: xs =>
    let z := x * y + c
    let r := smallMulAux y (z / B) xs
    ((z % B) :: r.1, r.2)

/-- `bigint::small_mul` -/
def smallMul (cap : Option Nat) (x : Big) (y : Nat) : Option Big :=
  let r := smallMulAux y 0 x
  if r.2 ≠ 0 then vecTryPush cap r.1 r.2 else some r.1

-- ---------------------------------------------------------------- large
/-- limb-wise addition of `y` into the window of `x` (same length), with carry -/
def largeAddAux : List Nat → List Nat → Bool → List Nat × Bool
  | x :: xs, y :: ys, carry =>
    let s := x + y + (if carry then 1 else 0)
    let r := largeAddAux xs ys (decide (s ≥ B))
    ((s % B) :: r.1, r.2)
  | xs, _, carry => (xs, carry)

/-- `bigint::large_add_from` -/
def largeAddFrom (cap : Option Nat) (x : Big) (y : Big) (start : Nat) : Option Big :=
  let x1? := if y.length > x.length - start then vecTryResize cap x (y.length + start) 0 else some x
  match x1? with
  | none => none
  | some x1 =>
    let pre := x1.take start
    let mid := (x1.drop start).take y.length
    let post := x1.drop (start + y.length)
    let r := largeAddAux mid y false
    let x2 := pre ++ r.1 ++ post
    if r.2 then smallAddFrom cap x2 1 (y.length + start) else some x2

def largeAdd (cap : Option Nat) (x y : Big) : Option Big := largeAddFrom cap x y 0

/-- the `for (index, &yi) in y.iter().enumerate().skip(1)` loop of `long_mul` -/
def longMulLoop (cap : Option Nat) (x : Big) : List Nat → Nat → Big → Option Big
  | [], _, z => some z
  | yi :: ys, index, z =>
    if yi ≠ 0 then
      match vecTryFrom cap x with
      | none => none
      | some zi0 =>
        match smallMul cap zi0 yi with
        | none => none
        | some zi =>
          match largeAddFrom cap z zi index with
          | none => none
          | some z' => longMulLoop cap x ys (index + 1) z'
    else longMulLoop cap x ys (index + 1) z

/-- `bigint::long_mul` -/
def longMul (cap : Option Nat) (x y : Big) : Option Big :=
  match vecTryFrom cap x with
  | none => none
  | some z0 =>
    match y with
    | [] => some (normalize z0)
    | y0 :: ys =>
      match smallMul cap z0 y0 with
      | none => none
      | some z1 =>
        match longMulLoop cap x ys 1 z1 with
        | none => none
        | some z => some (normalize z)

/-- `bigint::large_mul` -/
def largeMul (cap : Option Nat) (x y : Big) : Option Big :=
  match y with
  | [y0] => smallMul cap x y0
  | _ => longMul cap y x

-- ---------------------------------------------------------------- shifts
/-- wrapping `u64 << n` / `u64 >> n` as release builds compute them (shift amount mod 64) -/
def shl64 (x n : Nat) : Nat := (x * 2^(n % 64)) % B
def shr64 (x n : Nat) : Nat := x / 2^(n % 64)

def shlBitsAux (n : Nat) : Nat → List Nat → List Nat × Nat
  | prev, [] => ([], prev)
  | prev, x :: xs =>
    let v := shl64 x n ||| shr64 prev (64 - n)
    let r := shlBitsAux n x xs
    (v :: r.1, r.2)

/-- `bigint::shl_bits` (0 < n < 64) -/
def shlBits (cap : Option Nat) (x : Big) (n : Nat) : Option Big :=
  let r := shlBitsAux n 0 x
  let carry := shr64 r.2 (64 - n)
  if carry ≠ 0 then vecTryPush cap r.1 carry else some r.1

/-- `bigint::shl_limbs` (n ≠ 0). The heap back-end compares against `Vec::capacity()`, which the
    model does not track: for `cap = none` the model always succeeds (see DESIGN C12). -/
def shlLimbs (cap : Option Nat) (x : Big) (n : Nat) : Option Big :=
  if !capOk cap (n + x.length) then none
  else if x.isEmpty then some x
  else some (List.replicate n 0 ++ x)

/-- `bigint::shl` -/
def shl (cap : Option Nat) (x : Big) (n : Nat) : Option Big :=
  let rem := n % 64
  let div := n / 64
  match (if rem ≠ 0 then shlBits cap x rem else some x) with
  | none => none
  | some x1 => if div ≠ 0 then shlLimbs cap x1 div else some x1

/-- `bigint::leading_zeros` -/
def leadingZeros (x : Big) : Nat :=
  match x.getLast? with
  | some v => clz64 v
  | none => 0

/-- `bigint::bit_length` (u32 arithmetic; lengths here are far below 2^26) -/
def bitLength (x : Big) : Nat := 64 * x.length - leadingZeros x

-- ---------------------------------------------------------------- hi64
def u64ToHi64_1 (r0 : Nat) : Nat × Bool := (shl64 r0 (clz64 r0), false)

def u64ToHi64_2 (r0 r1 : Nat) : Nat × Bool :=
  let ls := clz64 r0
  let rs := 64 - ls
  let v := if ls = 0 then r0 else shl64 r0 ls ||| shr64 r1 rs
  (v, shl64 r1 ls != 0)

/-- `bigint::nonzero(x, rindex)`: any of the limbs below the top `rindex` is non-zero -/
def nonzero (x : Big) (rindex : Nat) : Bool := (x.take (x.length - rindex)).any (· != 0)

/-- `bigint::hi64` (64-bit limbs) -/
def hi64 (x : Big) : Nat × Bool :=
  match x.reverse with
  | [] => (0, false)
  | [r0] => u64ToHi64_1 r0
  | [r0, r1] => u64ToHi64_2 r0 r1
  | r0 :: r1 :: _ =>
    let p := u64ToHi64_2 r0 r1
    (p.1, p.2 || nonzero x 2)

-- ---------------------------------------------------------------- powers
/-- `int_pow_fast_path(exp, Five)`: table look-up (default) or `u64::pow` (compact) -/
def intPow5 (compact : Bool) (tbl : List Nat) (e : Nat) : Nat :=
  if compact then (5^e) % B else tbl.getD e 0

def intPow10 (compact : Bool) (tbl : List Nat) (e : Nat) : Nat :=
  if compact then (10^e) % B else tbl.getD e 0

/-- tables the big-integer code consumes -/
structure PowTables where
  compact : Bool
  smallIntPow5 : List Nat
  smallIntPow10 : List Nat
  largePow5 : List Nat
  largePow5Step : Nat

def powLargeLoop (cap : Option Nat) (T : PowTables) : Nat → Big → Nat → Option (Big × Nat)
  | 0, x, e => some (x, e)
  | fuel + 1, x, e =>
    if T.largePow5Step ≠ 0 ∧ e ≥ T.largePow5Step then
      match largeMul cap x T.largePow5 with
      | none => none
      | some x' => powLargeLoop cap T fuel x' (e - T.largePow5Step)
    else some (x, e)

def powSmallLoop (cap : Option Nat) : Nat → Big → Nat → Option (Big × Nat)
  | 0, x, e => some (x, e)
  | fuel + 1, x, e =>
    if e ≥ 27 then
      match smallMul cap x (5^27) with
      | none => none
      | some x' => powSmallLoop cap fuel x' (e - 27)
    else some (x, e)

/-- `bigint::pow`: multiply by `5^exp` -/
def pow (cap : Option Nat) (T : PowTables) (x : Big) (exp : Nat) : Option Big :=
  let r1 := if T.compact then some (x, exp) else powLargeLoop cap T (exp + 1) x exp
  match r1 with
  | none => none
  | some (x1, e1) =>
    match powSmallLoop cap (e1 + 1) x1 e1 with
    | none => none
    | some (x2, e2) =>
      if e2 ≠ 0 then smallMul cap x2 (intPow5 T.compact T.smallIntPow5 e2) else some x2

/-- `Bigint::pow(base, exp)` for base ∈ {2, 5, 10} -/
def bigintPow (cap : Option Nat) (T : PowTables) (x : Big) (base exp : Nat) : Option Big :=
  match (if base % 5 = 0 then pow cap T x exp else some x) with
  | none => none
  | some x1 => if base % 2 = 0 then shl cap x1 exp else some x1

end MinLex
