/-
  Limb-width-parametric model of src/bigint.rs, src/stackvec.rs, src/heapvec.rs and src/slow.rs.

  `MinLex/Model/Bigint.lean` and `Model/Slow.lean` model the 64-bit-limb build (`Limb = u64`,
  every x86_64 / aarch64 target).  On every other target the crate is compiled with `Limb = u32`,
  `Wide = u64`, `LIMB_BITS = 32` (src/bigint.rs, end of file) and then differs in exactly these places:

    * `BIGINT_LIMBS = 4000 / 32 = 125` limbs of stack storage instead of 62;
    * `from_u64` pushes two limbs;
    * `hi64` reads the top *three* limbs (`u32_to_hi64_1/2/3`);
    * `shl`, `shl_bits`, `bit_length`, `leading_zeros` work on 32-bit limbs;
    * `pow` multiplies by `5^13` per step instead of `5^27`, and the large power `5^135` is a
      10-limb table (src/table_small.rs `LARGE_POW5`, 32-bit variant);
    * `parse_mantissa` accumulates 9 digits per native chunk (in a `u32`) instead of 19.

  Everything here takes the limb width `w` (32 or 64) as a parameter and mirrors the code line by
  line, so that `w = 64` is the old model again (proved in `Props/Limb32.lean`) and `w = 32` is the
  other build.  Release semantics only (`none` = `.unwrap()` on a failed big-integer operation).
-/
import MinLex.Model.Slow
namespace MinLex
namespace W

/-- limb base `2^w` -/
def Bw (w : Nat) : Nat := 2 ^ w

/-- numeric value of a little-endian list of `w`-bit limbs -/
def toNatW (w : Nat) : Big → Nat
  | [] => 0
  | x :: xs => x + Bw w * toNatW w xs

def AllLtW (w : Nat) (xs : Big) : Prop := ∀ x ∈ xs, x < Bw w

/-- `BIGINT_LIMBS = BIGINT_BITS / LIMB_BITS` with `BIGINT_BITS = 4000` -/
def stackLimbs (w : Nat) : Nat := 4000 / w

-- ---------------------------------------------------------------- scalar
def scalarAdd (w x y : Nat) : Nat × Bool := ((x + y) % Bw w, decide (x + y ≥ Bw w))
def scalarMul (w x y carry : Nat) : Nat × Nat := let z := x * y + carry; (z % Bw w, z / Bw w)

/-- `bigint::from_u64` -/
def fromU64 (w : Nat) (v : Nat) : Big :=
  if w = 32 then normalize [v % 4294967296, v / 4294967296] else normalize [v]

-- ---------------------------------------------------------------- small
def smallAddAux (w : Nat) (carry : Nat) : List Nat → List Nat × Nat
  | [] => ([], carry)
  | x :: xs =>
    if carry = 0 then (x :: xs, 0)
    else
      let s := x + carry
      let r := smallAddAux w (s / Bw w) xs
      ((s % Bw w) :: r.1, r.2)

/-- `bigint::small_add_from` -/
def smallAddFrom (w : Nat) (cap : Option Nat) (x : Big) (y : Nat) (start : Nat) : Option Big :=
  let r := smallAddAux w y (x.drop start)
  let x' := x.take start ++ r.1
  if r.2 ≠ 0 then vecTryPush cap x' r.2 else some x'

/-- `bigint::small_add` -/
def smallAdd (w : Nat) (cap : Option Nat) (x : Big) (y : Nat) : Option Big := smallAddFrom w cap x y 0

def smallMulAux (w : Nat) (y : Nat) : Nat → List Nat → List Nat × Nat
  | c, [] => ([], c)
  | c, x :: xs =>
    let z := x * y + c
    let r := smallMulAux w y (z / Bw w) xs
    ((z % Bw w) :: r.1, r.2)

/-- `bigint::small_mul` -/
def smallMul (w : Nat) (cap : Option Nat) (x : Big) (y : Nat) : Option Big :=
  let r := smallMulAux w y 0 x
  if r.2 ≠ 0 then vecTryPush cap r.1 r.2 else some r.1

-- ---------------------------------------------------------------- large
def largeAddAux (w : Nat) : List Nat → List Nat → Bool → List Nat × Bool
  | x :: xs, y :: ys, carry =>
    let s := x + y + (if carry then 1 else 0)
    let r := largeAddAux w xs ys (decide (s ≥ Bw w))
    ((s % Bw w) :: r.1, r.2)
  | xs, _, carry => (xs, carry)

/-- `bigint::large_add_from` -/
def largeAddFrom (w : Nat) (cap : Option Nat) (x : Big) (y : Big) (start : Nat) : Option Big :=
  let x1? := if y.length > x.length - start then vecTryResize cap x (y.length + start) 0 else some x
  match x1? with
  | none => none
  | some x1 =>
    let pre := x1.take start
    let mid := (x1.drop start).take y.length
    let post := x1.drop (start + y.length)
    let r := largeAddAux w mid y false
    let x2 := pre ++ r.1 ++ post
    if r.2 then smallAddFrom w cap x2 1 (y.length + start) else some x2

def largeAdd (w : Nat) (cap : Option Nat) (x y : Big) : Option Big := largeAddFrom w cap x y 0

/-- the `for (index, &yi) in y.iter().enumerate().skip(1)` loop of `long_mul` -/
def longMulLoop (w : Nat) (cap : Option Nat) (x : Big) : List Nat → Nat → Big → Option Big
  | [], _, z => some z
  | yi :: ys, index, z =>
    if yi ≠ 0 then
      match vecTryFrom cap x with
      | none => none
      | some zi0 =>
        match smallMul w cap zi0 yi with
        | none => none
        | some zi =>
          match largeAddFrom w cap z zi index with
          | none => none
          | some z' => longMulLoop w cap x ys (index + 1) z'
    else longMulLoop w cap x ys (index + 1) z

/-- `bigint::long_mul` -/
def longMul (w : Nat) (cap : Option Nat) (x y : Big) : Option Big :=
  match vecTryFrom cap x with
  | none => none
  | some z0 =>
    match y with
    | [] => some (normalize z0)
    | y0 :: ys =>
      match smallMul w cap z0 y0 with
      | none => none
      | some z1 =>
        match longMulLoop w cap x ys 1 z1 with
        | none => none
        | some z => some (normalize z)

/-- `bigint::large_mul` -/
def largeMul (w : Nat) (cap : Option Nat) (x y : Big) : Option Big :=
  match y with
  | [y0] => smallMul w cap x y0
  | _ => longMul w cap y x

-- ---------------------------------------------------------------- shifts
/-- wrapping `Limb << n` / `Limb >> n` as release builds compute them (shift amount mod `w`) -/
def shlL (w x n : Nat) : Nat := (x * 2^(n % w)) % Bw w
def shrL (w x n : Nat) : Nat := x / 2^(n % w)

def shlBitsAux (w n : Nat) : Nat → List Nat → List Nat × Nat
  | prev, [] => ([], prev)
  | prev, x :: xs =>
    let v := shlL w x n ||| shrL w prev (w - n)
    let r := shlBitsAux w n x xs
    (v :: r.1, r.2)

/-- `bigint::shl_bits` (0 < n < w) -/
def shlBits (w : Nat) (cap : Option Nat) (x : Big) (n : Nat) : Option Big :=
  let r := shlBitsAux w n 0 x
  let carry := shrL w r.2 (w - n)
  if carry ≠ 0 then vecTryPush cap r.1 carry else some r.1

/-- `bigint::shl` -/
def shl (w : Nat) (cap : Option Nat) (x : Big) (n : Nat) : Option Big :=
  let rem := n % w
  let div := n / w
  match (if rem ≠ 0 then shlBits w cap x rem else some x) with
  | none => none
  | some x1 => if div ≠ 0 then shlLimbs cap x1 div else some x1

/-- `Limb::leading_zeros` -/
def clzL (w v : Nat) : Nat := if v = 0 then w else w - 1 - Nat.log2 v

/-- `bigint::leading_zeros` -/
def leadingZeros (w : Nat) (x : Big) : Nat :=
  match x.getLast? with
  | some v => clzL w v
  | none => 0

/-- `bigint::bit_length` -/
def bitLength (w : Nat) (x : Big) : Nat := w * x.length - leadingZeros w x

-- ---------------------------------------------------------------- hi64
/-- `u32_to_hi64_1` -/
def u32ToHi64_1 (r0 : Nat) : Nat × Bool := u64ToHi64_1 r0
/-- `u32_to_hi64_2` -/
def u32ToHi64_2 (r0 r1 : Nat) : Nat × Bool := u64ToHi64_1 ((r0 * 4294967296) % B ||| r1)
/-- `u32_to_hi64_3` -/
def u32ToHi64_3 (r0 r1 r2 : Nat) : Nat × Bool := u64ToHi64_2 r0 ((r1 * 4294967296) % B ||| r2)

/-- `bigint::hi64` -/
def hi64 (w : Nat) (x : Big) : Nat × Bool :=
  if w = 32 then
    match x.reverse with
    | [] => (0, false)
    | [r0] => u32ToHi64_1 r0
    | [r0, r1] => u32ToHi64_2 r0 r1
    | r0 :: r1 :: r2 :: _ =>
      let p := u32ToHi64_3 r0 r1 r2
      (p.1, p.2 || nonzero x 3)
  else MinLex.hi64 x

-- ---------------------------------------------------------------- powers
/-- `small_step` of `bigint::pow` -/
def powStep (w : Nat) : Nat := if w = 32 then 13 else 27

def powLargeLoop (w : Nat) (cap : Option Nat) (T : PowTables) : Nat → Big → Nat → Option (Big × Nat)
  | 0, x, e => some (x, e)
  | fuel + 1, x, e =>
    if T.largePow5Step ≠ 0 ∧ e ≥ T.largePow5Step then
      match largeMul w cap x T.largePow5 with
      | none => none
      | some x' => powLargeLoop w cap T fuel x' (e - T.largePow5Step)
    else some (x, e)

def powSmallLoop (w : Nat) (cap : Option Nat) : Nat → Big → Nat → Option (Big × Nat)
  | 0, x, e => some (x, e)
  | fuel + 1, x, e =>
    if e ≥ powStep w then
      match smallMul w cap x (5 ^ powStep w) with
      | none => none
      | some x' => powSmallLoop w cap fuel x' (e - powStep w)
    else some (x, e)

/-- `bigint::pow`: multiply by `5^exp`; the last factor is `int_pow_fast_path(exp, Five) as Limb` -/
def pow (w : Nat) (cap : Option Nat) (T : PowTables) (x : Big) (exp : Nat) : Option Big :=
  let r1 := if T.compact then some (x, exp) else powLargeLoop w cap T (exp + 1) x exp
  match r1 with
  | none => none
  | some (x1, e1) =>
    match powSmallLoop w cap (e1 + 1) x1 e1 with
    | none => none
    | some (x2, e2) =>
      if e2 ≠ 0 then smallMul w cap x2 (intPow5 T.compact T.smallIntPow5 e2 % Bw w) else some x2

/-- `Bigint::pow(base, exp)` for base ∈ {2, 5, 10} -/
def bigintPow (w : Nat) (cap : Option Nat) (T : PowTables) (x : Big) (base exp : Nat) : Option Big :=
  match (if base % 5 = 0 then pow w cap T x exp else some x) with
  | none => none
  | some x1 => if base % 2 = 0 then shl w cap x1 exp else some x1

-- ---------------------------------------------------------------- slow.rs
/-- `step` of `parse_mantissa` -/
def pmStep (w : Nat) : Nat := if w = 32 then 9 else 19
/-- `max_native = (10 as Limb).pow(step)` -/
def pmMaxNative (w : Nat) : Nat := 10 ^ pmStep w

/-- `add_digit!` with `value : Limb` (wrapping) -/
def addDigit (w : Nat) (s : PM) (c : UInt8) : PM :=
  { s with value := ((s.value * 10) % Bw w + digitOf c) % Bw w, counter := s.counter + 1, count := s.count + 1 }

/-- `add_temporary!(@mul result, power, value)` -/
def pmMulAdd (w : Nat) (cap : Option Nat) (r : Option Big) (power value : Nat) : Option Big :=
  match r with
  | none => none
  | some x =>
    match smallMul w cap x power with
    | none => none
    | some y => smallAdd w cap y value

def flushMax (w : Nat) (cap : Option Nat) (s : PM) : PM :=
  { s with result := pmMulAdd w cap s.result (pmMaxNative w) s.value, counter := 0, value := 0 }

/-- `small_power as Limb` -/
def flushEnd (w : Nat) (cap : Option Nat) (T : PowTables) (s : PM) : PM :=
  if s.counter ≠ 0 then
    { s with result := pmMulAdd w cap s.result (intPow10 T.compact T.smallIntPow10 s.counter % Bw w) s.value }
  else s

def roundUpNonzero (w : Nat) (cap : Option Nat) (s : PM) (rest : List UInt8) : Option PM :=
  if rest.any (· != 48) then
    some { s with result := pmMulAdd w cap s.result 10 1, count := s.count + 1 }
  else none

def pmLoop (w : Nat) (cap : Option Nat) (T : PowTables) (maxDigits : Nat) : List UInt8 → PM → PMOut
  | ds, s =>
    if s.count ≥ maxDigits then .full (flushEnd w cap T s) ds
    else match ds with
      | [] => .exhausted s
      | c :: rest =>
        let s1 := addDigit w s c
        if s1.count ≥ maxDigits then .full (flushEnd w cap T s1) rest
        else if s1.counter ≥ pmStep w then pmLoop w cap T maxDigits rest (flushMax w cap s1)
        else pmLoop w cap T maxDigits rest s1

def pmSkipZeros (w : Nat) : List UInt8 → PM → PM × List UInt8
  | [], s => (s, [])
  | c :: rest, s => if c != 48 then (addDigit w s c, rest) else pmSkipZeros w rest s

/-- `slow::parse_mantissa(integer, fraction, max_digits)` -/
def parseMantissaPM (w : Nat) (cap : Option Nat) (T : PowTables) (int frac : List UInt8) (maxDigits : Nat) : PM :=
  let s0 : PM := ⟨0, 0, 0, some [], false⟩
  match pmLoop w cap T maxDigits int s0 with
  | .full s rest =>
    match roundUpNonzero w cap s rest with
    | some s' => s'
    | none =>
      match roundUpNonzero w cap s frac with
      | some s' => s'
      | none => s
  | .exhausted s =>
    let (s1, frac1) := if s.count = 0 then pmSkipZeros w frac s else (s, frac)
    match pmLoop w cap T maxDigits frac1 s1 with
    | .full s2 rest =>
      match roundUpNonzero w cap s2 rest with
      | some s' => s'
      | none => s2
    | .exhausted s2 => flushEnd w cap T s2

def parseMantissa (w : Nat) (cap : Option Nat) (T : PowTables) (int frac : List UInt8) (maxDigits : Nat) :
    Option (Big × Nat) :=
  let s := parseMantissaPM w cap T int frac maxDigits
  match s.result with
  | none => none
  | some r => some (r, s.count)

/-- `slow::positive_digit_comp` -/
def positiveDigitComp (w : Nat) (cap : Option Nat) (T : PowTables) (F : FloatC) (bigmant : Big) (exponent : Int) :
    Option ExtFloat :=
  match bigintPow w cap T bigmant 10 (exponent % 4294967296).toNat with
  | none => none
  | some bm =>
    let h := hi64 w bm
    let exp : Int := (bitLength w bm : Int) - 64 + F.exponentBias
    some (round F (roundNearestTieEven (cbTruncatedAbove h.2)) ⟨h.1, exp⟩)

/-- `slow::negative_digit_comp` -/
def negativeDigitComp (w : Nat) (cap : Option Nat) (T : PowTables) (F : FloatC) (bigmant : Big) (fp : ExtFloat)
    (exponent : Int) : Option ExtFloat :=
  let realExp := exponent
  let b := round F roundDown fp
  let bBits := extendedToFloat F b
  let theor := fbh F bBits
  let theorDigits0 := fromU64 w theor.mant
  let binaryExp := theor.exp - realExp
  let halfradixExp := -realExp
  let theor1? := if halfradixExp ≠ 0 then bigintPow w cap T theorDigits0 5 (halfradixExp % 4294967296).toNat
                 else some theorDigits0
  match theor1? with
  | none => none
  | some theor1 =>
    let both? : Option (Big × Big) :=
      if binaryExp > 0 then
        match bigintPow w cap T theor1 2 (binaryExp % 4294967296).toNat with
        | none => none
        | some t => some (bigmant, t)
      else if binaryExp < 0 then
        match bigintPow w cap T bigmant 2 ((-binaryExp) % 4294967296).toNat with
        | none => none
        | some r => some (r, theor1)
      else some (bigmant, theor1)
    match both? with
    | none => none
    | some (realDigits, theorDigits) =>
      let ord := bigCompare realDigits theorDigits
      some (round F (roundNearestTieEven (cbOrdering ord)) fp)

/-- `slow::slow::<F>(num, fp, integer, fraction)` -/
def slow (w : Nat) (cap : Option Nat) (T : PowTables) (F : FloatC) (num : Number) (fp : ExtFloat)
    (int frac : List UInt8) : Option ExtFloat :=
  let sciExp := scientificExponent num
  match parseMantissa w cap T int frac F.maxDigits with
  | none => none
  | some (bigmant, digits) =>
    let exponent := wrapI32 (sciExp + 1 - asI32 digits)
    if exponent ≥ 0 then positiveDigitComp w cap T F bigmant exponent
    else negativeDigitComp w cap T F bigmant fp exponent

/-- storage back-end of a `w`-bit-limb build -/
def capW (w : Nat) (alloc : Bool) : Option Nat := if alloc then none else some (stackLimbs w)

end W
end MinLex
