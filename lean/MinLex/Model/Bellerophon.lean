/-
  Model of src/bellerophon.rs (compact builds), after the `fix:` commit.
-/
import MinLex.Model.Rounding
namespace MinLex

structure BelTables where
  small : List Nat
  large : List Nat
  smallInt : List Nat
  step : Int
  bias : Int
  log2 : Int
  log2Shift : Nat

/-- `BellerophonPowers::get_small(index)` (`none` = index panic) -/
def BelTables.getSmall (T : BelTables) (index : Nat) : Option ExtFloat :=
  match T.small[index]? with
  | none => none
  | some mant => some ⟨mant, (1 - 64) + (T.log2 * index) / (2:Int)^T.log2Shift⟩

/-- `BellerophonPowers::get_large(index)` -/
def BelTables.getLarge (T : BelTables) (index : Nat) : Option ExtFloat :=
  match T.large[index]? with
  | none => none
  | some mant =>
    let biasedE : Int := (index : Int) * T.step - T.bias
    some ⟨mant, (1 - 64) + (T.log2 * biasedE) / (2:Int)^T.log2Shift⟩

/-- `bellerophon::normalize` → (fp, shift) -/
def belNormalize (fp : ExtFloat) : ExtFloat × Nat :=
  if fp.mant ≠ 0 then
    let shift := clz64 fp.mant
    (⟨(fp.mant * 2^shift) % u64Mod, fp.exp - shift⟩, shift)
  else (fp, 0)

/-- `bellerophon::mul` -/
def belMul (x y : ExtFloat) : ExtFloat :=
  let lomask : Nat := 4294967296
  let x1 := x.mant / lomask
  let x0 := x.mant % lomask
  let y1 := y.mant / lomask
  let y0 := y.mant % lomask
  let x1y0 := x1 * y0
  let x0y1 := x0 * y1
  let x0y0 := x0 * y0
  let x1y1 := x1 * y1
  let tmp := (x1y0 % lomask) + (x0y1 % lomask) + (x0y0 / lomask) + 2147483648
  ⟨(x1y1 + x1y0 / lomask + x0y1 / lomask + tmp / lomask) % u64Mod, x.exp + y.exp + 64⟩

def errorScale : Nat := 8
def errorHalfscale : Nat := 4
def tooManyErrors : Nat := 576460752303423488

/-- `truncated_errors(num, fp)` (added by the fix) -/
def truncatedErrors (num : Number) (fp : ExtFloat) : Nat :=
  if num.manyDigits then min (min ((fp.mant / num.mantissa) * errorScale) u64Max) tooManyErrors else 0

/-- `error_is_accurate::<F>(errors, fp)` -/
def errorIsAccurate (F : FloatC) (errors : Nat) (fp : ExtFloat) : Bool :=
  if errors ≥ tooManyErrors then false else
  let mantissaShift : Int := 64 - (F.mantissaSize : Int) - 1
  let extrabits : Int := if fp.exp ≤ -mantissaShift then 1 - fp.exp else mantissaShift
  if extrabits > 64 then
    decide (fp.mant + errors < u64Mod)
  else
    let maskbits := extrabits.toNat
    let mask := lowerNMask maskbits
    let extra := fp.mant &&& mask
    let halfway := lowerNHalfway maskbits
    if errors > halfway then false else
    let cmp1 := decide ((halfway + u64Mod - errors) % u64Mod < extra)
    let cmp2 := decide (extra < (halfway + errors) % u64Mod)
    !(cmp1 && cmp2)

/-- `bellerophon::<F>(num)`; `none` = index panic (cannot happen: guarded) -/
def bellerophon (T : BelTables) (F : FloatC) (num : Number) : Option ExtFloat :=
  let fpZero : ExtFloat := ⟨0, 0⟩
  let fpInf : ExtFloat := ⟨0, F.infinitePower⟩
  if num.mantissa = 0 ∨ num.exponent ≤ -4096 then some fpZero
  else if num.exponent ≥ 4096 then some fpInf
  else
    let exponent := num.exponent + T.bias
    let smallIndex := Int.tmod exponent T.step
    let largeIndex := Int.tdiv exponent T.step
    if exponent < 0 then some fpZero
    else if largeIndex.toNat ≥ T.large.length then some fpInf
    else
      match T.smallInt[smallIndex.toNat]?, T.getSmall smallIndex.toNat, T.getLarge largeIndex.toNat with
      | some sInt, some sFp, some lFp =>
        let prod := num.mantissa * sInt
        let (fp1, errors1) :=
          if prod ≥ u64Mod then
            let fpn := (belNormalize ⟨num.mantissa, 0⟩).1
            let e := truncatedErrors num fpn
            (belMul fpn sFp, e + errorHalfscale)
          else
            let fpn := (belNormalize ⟨prod, 0⟩).1
            (fpn, truncatedErrors num fpn)
        let fp2 := belMul fp1 lFp
        let errors2 := (if errors1 > 0 then errors1 + 1 else errors1) + errorHalfscale
        let (fp3, shift) := belNormalize fp2
        let errors3 := (errors2 * 2^shift) % u64Mod
        let fp4 : ExtFloat := ⟨fp3.mant, fp3.exp + F.exponentBias⟩
        if -fp4.exp + 1 > 65 then some fpZero
        else if !errorIsAccurate F errors3 fp4 then some ⟨fp4.mant, fp4.exp + F.invalidFp⟩
        else if -fp4.exp + 1 = 65 then some fpZero
        else some (round F (roundNearestTieEven cbNearestEven) fp4)
      | _, _, _ => none

end MinLex
