/-
  Model of src/slow.rs.  `none` = `.unwrap()` on a failed big-integer operation (capacity).
-/
import MinLex.Model.Bigint
import MinLex.Model.Rounding
namespace MinLex

/-- `c - b'0'` as release builds compute it (wrapping u8). -/
def digitOf (c : UInt8) : Nat := (c - 48).toNat
/-- a checked build traps on `c - b'0'` -/
def digitTraps (c : UInt8) : Bool := decide (c.toNat < 48)

/-- state of `parse_mantissa` -/
structure PM where
  counter : Nat
  count : Nat
  value : Nat
  result : Option Big     -- `none` once an unwrap has failed
  trap : Bool             -- a checked build would have panicked
deriving Repr

def pmStep : Nat := 19
def pmMaxNative : Nat := 10000000000000000000

/-- `add_digit!` -/
def PM.addDigit (s : PM) (c : UInt8) : PM :=
  let v1 := s.value * 10
  let v2 := v1 % u64Mod + digitOf c
  { s with value := v2 % u64Mod, counter := s.counter + 1, count := s.count + 1,
           trap := s.trap || digitTraps c || decide (v1 ≥ u64Mod) || decide (v2 ≥ u64Mod) }

/-- `add_temporary!(@mul result, power, value)` -/
def pmMulAdd (cap : Option Nat) (r : Option Big) (power value : Nat) : Option Big :=
  match r with
  | none => none
  | some x =>
    match smallMul cap x power with
    | none => none
    | some y => smallAdd cap y value

/-- `add_temporary!(@max …)` -/
def PM.flushMax (cap : Option Nat) (s : PM) : PM :=
  { s with result := pmMulAdd cap s.result pmMaxNative s.value, counter := 0, value := 0 }

/-- `add_temporary!(@end …)` -/
def PM.flushEnd (cap : Option Nat) (T : PowTables) (s : PM) : PM :=
  if s.counter ≠ 0 then
    { s with result := pmMulAdd cap s.result (intPow10 T.compact T.smallIntPow10 s.counter) s.value }
  else s

/-- `round_up_nonzero!` over one iterator: `some s'` if a non-zero byte was found (and we returned) -/
def PM.roundUpNonzero (cap : Option Nat) (s : PM) (rest : List UInt8) : Option PM :=
  if rest.any (· != 48) then
    some { s with result := pmMulAdd cap s.result 10 1, count := s.count + 1 }
  else none

inductive PMOut where
  | exhausted (s : PM)                       -- iterator ran out (`break 'integer`)
  | full (s : PM) (rest : List UInt8)        -- `count == max_digits` (temporary already flushed)

/-- one of the two labelled loops of `parse_mantissa` over a digit iterator -/
def pmLoop (cap : Option Nat) (T : PowTables) (maxDigits : Nat) : List UInt8 → PM → PMOut
  | ds, s =>
    if s.count ≥ maxDigits then .full (s.flushEnd cap T) ds
    else match ds with
      | [] => .exhausted s
      | c :: rest =>
        let s1 := s.addDigit c
        if s1.count ≥ maxDigits then .full (s1.flushEnd cap T) rest
        else if s1.counter ≥ pmStep then pmLoop cap T maxDigits rest (s1.flushMax cap)
        else pmLoop cap T maxDigits rest s1

/-- skip leading fraction zeros (only when no digit has been seen) -/
def pmSkipZeros : List UInt8 → PM → PM × List UInt8
  | [], s => (s, [])
  | c :: rest, s => if c != 48 then (s.addDigit c, rest) else pmSkipZeros rest s

/-- `slow::parse_mantissa(integer, fraction, max_digits)` → (state with result, count) -/
def parseMantissaPM (cap : Option Nat) (T : PowTables) (int frac : List UInt8) (maxDigits : Nat) : PM :=
  let s0 : PM := ⟨0, 0, 0, some [], false⟩
  match pmLoop cap T maxDigits int s0 with
  | .full s rest =>
    match s.roundUpNonzero cap rest with
    | some s' => s'
    | none =>
      match s.roundUpNonzero cap frac with
      | some s' => s'
      | none => s
  | .exhausted s =>
    let (s1, frac1) := if s.count = 0 then pmSkipZeros frac s else (s, frac)
    match pmLoop cap T maxDigits frac1 s1 with
    | .full s2 rest =>
      match s2.roundUpNonzero cap rest with
      | some s' => s'
      | none => s2
    | .exhausted s2 => s2.flushEnd cap T

def parseMantissa (cap : Option Nat) (T : PowTables) (int frac : List UInt8) (maxDigits : Nat) :
    Option (Big × Nat) :=
  let s := parseMantissaPM cap T int frac maxDigits
  match s.result with
  | none => none
  | some r => some (r, s.count)

/-- `slow::scientific_exponent` (wrapping i32 arithmetic; at most 7 iterations in total) -/
def sciLoop (step : Nat) (lim : Nat) : Nat → Nat → Int → Nat × Int
  | 0, m, e => (m, e)
  | fuel + 1, m, e => if m ≥ lim then sciLoop step lim fuel (m / lim) (wrapI32 (e + step)) else (m, e)

def scientificExponent (num : Number) : Int :=
  let r1 := sciLoop 4 10000 8 num.mantissa num.exponent
  let r2 := sciLoop 2 100 4 r1.1 r1.2
  let r3 := sciLoop 1 10 4 r2.1 r2.2
  r3.2

/-- `slow::positive_digit_comp::<F>(bigmant, exponent)` -/
def positiveDigitComp (cap : Option Nat) (T : PowTables) (F : FloatC) (bigmant : Big) (exponent : Int) :
    Option ExtFloat :=
  match bigintPow cap T bigmant 10 (exponent % 4294967296).toNat with
  | none => none
  | some bm =>
    let h := hi64 bm
    let exp : Int := (bitLength bm : Int) - 64 + F.exponentBias
    some (round F (roundNearestTieEven (cbTruncatedAbove h.2)) ⟨h.1, exp⟩)

/-- `slow::negative_digit_comp::<F>(bigmant, fp, exponent)` -/
def negativeDigitComp (cap : Option Nat) (T : PowTables) (F : FloatC) (bigmant : Big) (fp : ExtFloat)
    (exponent : Int) : Option ExtFloat :=
  let realExp := exponent
  let b := round F roundDown fp
  let bBits := extendedToFloat F b
  let theor := fbh F bBits
  let theorDigits0 := fromU64 theor.mant
  let binaryExp := theor.exp - realExp
  let halfradixExp := -realExp
  let theor1? := if halfradixExp ≠ 0 then bigintPow cap T theorDigits0 5 (halfradixExp % 4294967296).toNat
                 else some theorDigits0
  match theor1? with
  | none => none
  | some theor1 =>
    let both? : Option (Big × Big) :=
      if binaryExp > 0 then
        match bigintPow cap T theor1 2 (binaryExp % 4294967296).toNat with
        | none => none
        | some t => some (bigmant, t)
      else if binaryExp < 0 then
        match bigintPow cap T bigmant 2 ((-binaryExp) % 4294967296).toNat with
        | none => none
        | some r => some (r, theor1)
      else some (bigmant, theor1)
    match both? with
    | none => none
    | some (realDigits, theorDigits) =>
      let ord := bigCompare realDigits theorDigits
      some (round F (roundNearestTieEven (cbOrdering ord)) fp)

/-- `slow::slow::<F>(num, fp, integer, fraction)` -/
def slow (cap : Option Nat) (T : PowTables) (F : FloatC) (num : Number) (fp : ExtFloat)
    (int frac : List UInt8) : Option ExtFloat :=
  let sciExp := scientificExponent num
  match parseMantissa cap T int frac F.maxDigits with
  | none => none
  | some (bigmant, digits) =>
    let exponent := wrapI32 (sciExp + 1 - asI32 digits)
    if exponent ≥ 0 then positiveDigitComp cap T F bigmant exponent
    else negativeDigitComp cap T F bigmant fp exponent

end MinLex
