/-
  Binds the model to the data regenerated from the compiled crate.
-/
import MinLex.Model.Front
import MinLex.Gen.Consts
import MinLex.Gen.Tables
namespace MinLex

def genLemire : LemireTables :=
  ⟨Gen.smallestPowerOfFive, Gen.largestPowerOfFive, Gen.powerOfFive128⟩

def genBel : BelTables :=
  ⟨Gen.belSmall, Gen.belLarge, Gen.belSmallInt, Gen.belStep, Gen.belBias, Gen.belLog2, Gen.belLog2Shift⟩

def genPow (compact : Bool) : PowTables :=
  ⟨compact, Gen.smallIntPow5, Gen.smallIntPow10, Gen.largePow5, Gen.largePow5Step⟩

/-- bit pattern of `F::pow_fast_path(k)` per configuration: the table (default builds), std's
    `powf` (std + compact) or the bundled libm (no_std + compact); all three regenerated. -/
def genPowFastPath (cfg : Cfg) (F : FloatC) (k : Nat) : Nat :=
  if F.width = 32 then
    if !cfg.compact then Gen.smallF32Pow10.getD k 0
    else if cfg.std then Gen.compactStdPowFastPath32.getD k 0
    else Gen.compactLibmPowFastPath32.getD k 0
  else
    if !cfg.compact then Gen.smallF64Pow10.getD k 0
    else if cfg.std then Gen.compactStdPowFastPath64.getD k 0
    else Gen.compactLibmPowFastPath64.getD k 0

def genEnv (cfg : Cfg) : Env := ⟨cfg, genLemire, genBel, genPow cfg.compact, genPowFastPath cfg⟩

end MinLex
