/-
  Low-level model of src/stackvec.rs: the 62-slot `MaybeUninit` array is a total function
  `buf : Nat → Nat` whose INITIAL contents are arbitrary ("whatever was on the stack"); only the
  slots `i < 62` are meaningful.  Every operation mirrors the raw-pointer code literally: raw writes to
  slot `len`, length updates, raw reads of slot `len - 1`.  Nothing here knows which slots are
  "initialised"; that no observable depends on a slot `≥ len` is a theorem (Props/C13), not a
  modelling decision.

  The in-place limb loops of `bigint::small_add` / `small_mul` / `normalize` (which go through
  `DerefMut`, i.e. `x[index] = …`, and through `set_len`) are mirrored as loops over slot indices.
  Limb arithmetic is the same as in `MinLex.Model.Bigint` (`s % B`, `s / B`).
-/
import MinLex.Model.Bigint
namespace MinLex

structure LowVec where
  /-- slot `i` of the `[MaybeUninit<Limb>; 62]` array -/
  buf : Nat → Nat
  /-- the `length: u16` field -/
  len : Nat

namespace LowVec

/-- `bigint::BIGINT_LIMBS` (64-bit limbs) -/
def CAP : Nat := 62

/-- `ptr::write(self.as_mut_ptr().add(i), x)` -/
def write (buf : Nat → Nat) (i x : Nat) : Nat → Nat := fun j => if j = i then x else buf j

/-- `StackVec::new()`: length 0, buffer = arbitrary garbage `buf0` -/
def new (buf0 : Nat → Nat) : LowVec := ⟨buf0, 0⟩

/-- `set_len` -/
def setLen (v : LowVec) (n : Nat) : LowVec := ⟨v.buf, n⟩

/-- `Deref::deref`: `slice::from_raw_parts(ptr, len)` -/
def deref (v : LowVec) : Big := List.map v.buf (List.range v.len)

/-- `push_unchecked`: write slot `len`, then `length += 1` -/
def pushUnchecked (v : LowVec) (x : Nat) : LowVec := ⟨write v.buf v.len x, v.len + 1⟩

/-- `try_push` -/
def tryPush (v : LowVec) (x : Nat) : Option LowVec :=
  if v.len < CAP then some (v.pushUnchecked x) else none

/-- `pop_unchecked`: `length -= 1`, then read slot `length` -/
def popUnchecked (v : LowVec) : Nat × LowVec :=
  let v' : LowVec := ⟨v.buf, v.len - 1⟩
  (v'.buf v'.len, v')

/-- `pop` -/
def pop (v : LowVec) : Option (Nat × LowVec) :=
  if v.len = 0 then none else some v.popUnchecked

/-- `ptr::copy_nonoverlapping(src, dst, n)`: write the source limbs to consecutive slots -/
def copyTo : (Nat → Nat) → Nat → List Nat → (Nat → Nat)
  | buf, _, [] => buf
  | buf, i, x :: xs => copyTo (write buf i x) (i + 1) xs

/-- `extend_unchecked`: copy to slots `len .. len + |s|`, then `set_len` -/
def extendUnchecked (v : LowVec) (s : List Nat) : LowVec :=
  (⟨copyTo v.buf v.len s, v.len⟩ : LowVec).setLen (v.len + s.length)

/-- `try_extend` -/
def tryExtend (v : LowVec) (s : List Nat) : Option LowVec :=
  if v.len + s.length ≤ CAP then some (v.extendUnchecked s) else none

/-- `try_from`: `new()` on a fresh (arbitrary) buffer, then `try_extend` -/
def tryFrom (buf0 : Nat → Nat) (s : List Nat) : Option LowVec := (new buf0).tryExtend s

/-- the `for index in 0..count { ptr::write(dst.add(old_len + index), value) }` loop -/
def fill (x : Nat) : (Nat → Nat) → Nat → Nat → (Nat → Nat)
  | buf, _, 0 => buf
  | buf, i, n + 1 => fill x (write buf i x) (i + 1) n

/-- `truncate_unchecked` -/
def truncateUnchecked (v : LowVec) (len : Nat) : LowVec := ⟨v.buf, len⟩

/-- `resize_unchecked` -/
def resizeUnchecked (v : LowVec) (len x : Nat) : LowVec :=
  if len > v.len then ⟨fill x v.buf v.len (len - v.len), len⟩ else v.truncateUnchecked len

/-- `try_resize` -/
def tryResize (v : LowVec) (len x : Nat) : Option LowVec :=
  if len > CAP then none else some (v.resizeUnchecked len x)

/-- `bigint::normalize`: `while let Some(&0) = x.get(len - 1) { set_len(len - 1) }`;
    the function returns the final length. -/
def normLen (buf : Nat → Nat) : Nat → Nat
  | 0 => 0
  | n + 1 => if buf n = 0 then normLen buf n else n + 1

def normalize (v : LowVec) : LowVec := v.setLen (normLen v.buf v.len)

/-- the `while carry != 0 && index < x.len()` loop of `small_add_from`; first argument =
    `x.len() - index` -/
def addLoop : Nat → (Nat → Nat) → Nat → Nat → (Nat → Nat) × Nat
  | 0, buf, _, carry => (buf, carry)
  | n + 1, buf, i, carry =>
    if carry = 0 then (buf, 0)
    else
      let s := buf i + carry
      addLoop n (write buf i (s % B)) (i + 1) (s / B)

/-- `add_small`: limbs updated in place, then the carry (if any) goes through `try_push`.
    On failure the in-place updates have already happened. -/
def addSmall (v : LowVec) (y : Nat) : LowVec × Bool :=
  let r := addLoop v.len v.buf 0 y
  let v' : LowVec := ⟨r.1, v.len⟩
  if r.2 ≠ 0 then
    match v'.tryPush r.2 with
    | some w => (w, true)
    | none => (v', false)
  else (v', true)

/-- the `for xi in x.iter_mut()` loop of `small_mul`; first argument = remaining count -/
def mulLoop (y : Nat) : Nat → (Nat → Nat) → Nat → Nat → (Nat → Nat) × Nat
  | 0, buf, _, c => (buf, c)
  | n + 1, buf, i, c =>
    let z := buf i * y + c
    mulLoop y n (write buf i (z % B)) (i + 1) (z / B)

/-- `mul_small` -/
def mulSmall (v : LowVec) (y : Nat) : LowVec × Bool :=
  let r := mulLoop y v.len v.buf 0 0
  let v' : LowVec := ⟨r.1, v.len⟩
  if r.2 ≠ 0 then
    match v'.tryPush r.2 with
    | some w => (w, true)
    | none => (v', false)
  else (v', true)

/-- `from_u64` (64-bit limbs): `new()` on a fresh buffer, `try_push(x).unwrap()`, `normalize()`;
    `none` = the `unwrap` panics -/
def fromU64 (buf0 : Nat → Nat) (x : Nat) : Option LowVec :=
  match (new buf0).tryPush x with
  | some w => some w.normalize
  | none => none

end LowVec
end MinLex
