/-
  Model of src/num.rs, src/extended_float.rs, src/number.rs (types) and machine-integer helpers.
  Per-format constants are *data* regenerated from the compiled crate (MinLex/Gen/Consts.lean).
-/
import MinLex.Spec.Rne
namespace MinLex

/-- Feature configuration of the crate. -/
structure Cfg where
  compact : Bool
  alloc : Bool
  std : Bool
deriving Repr, DecidableEq

/-- The associated constants of `impl Float for f32/f64`, as dumped from the compiled crate. -/
structure FloatC where
  maxDigits : Nat
  signMask : Nat
  exponentMask : Nat
  hiddenBitMask : Nat
  mantissaMask : Nat
  mantissaSize : Nat
  exponentBias : Int
  denormalExponent : Int
  maxExponent : Int
  carryMask : Nat
  invalidFp : Int
  maxMantissaFastPath : Nat
  infinitePower : Int
  minExponentRoundToEven : Int
  maxExponentRoundToEven : Int
  minimumExponent : Int
  smallestPowerOfTen : Int
  largestPowerOfTen : Int
  minExponentFastPath : Int
  maxExponentFastPath : Int
  maxExponentDisguisedFastPath : Int
  /-- total width of the bit pattern (32 / 64) -/
  width : Nat
deriving Repr, DecidableEq

/-- The IEEE format a constant record describes. -/
def FloatC.fmt (F : FloatC) : Fmt := ⟨F.mantissaSize, F.width - 1 - F.mantissaSize⟩

/-- `ExtendedFloat { mant: u64, exp: i32 }`. -/
structure ExtFloat where
  mant : Nat
  exp : Int
deriving Repr, DecidableEq, BEq

/-- `Number { exponent: i32, mantissa: u64, many_digits: bool }`. -/
structure Number where
  exponent : Int
  mantissa : Nat
  manyDigits : Bool
deriving Repr, DecidableEq, BEq

def u64Mod : Nat := 18446744073709551616
def u64Max : Nat := 18446744073709551615

/-- Two's-complement reinterpretation of the low 32 bits as `i32`. -/
def wrapI32 (x : Int) : Int :=
  let m := x % 4294967296
  if m < 2147483648 then m else m - 4294967296

/-- `usize as i32` / `u64 as i32`. -/
def asI32 (n : Nat) : Int := wrapI32 n

def satI32 (x : Int) : Int := if x < i32Min then i32Min else if x > i32Max then i32Max else x
def inI32 (x : Int) : Bool := decide (i32Min ≤ x) && decide (x ≤ i32Max)

/-- `i32 as u64` (sign extension). -/
def i32AsU64 (x : Int) : Nat := (x % (u64Mod : Int)).toNat

/-- `u64::leading_zeros`. -/
def clz64 (w : Nat) : Nat := if w = 0 then 64 else 63 - Nat.log2 w

/-- `x & (2^n - 1)` -/
def lowBits (x n : Nat) : Nat := x % 2^n

/-- `extended_to_float`: `mant | ((exp as u64) << MANTISSA_SIZE)`, then `from_bits`
    (for f32, `from_bits` truncates to 32 bits in release builds). -/
def extendedToFloat (F : FloatC) (x : ExtFloat) : Nat :=
  (x.mant ||| ((i32AsU64 x.exp * 2^F.mantissaSize) % u64Mod)) % 2^F.width

/-- `debug_assert!(u <= 0xffff_ffff)` in `f32::from_bits`. -/
def extendedToFloatTraps (F : FloatC) (x : ExtFloat) : Bool :=
  decide ((x.mant ||| ((i32AsU64 x.exp * 2^F.mantissaSize) % u64Mod)) ≥ 2^F.width)

/-- `Float::is_denormal` -/
def isDenormal (F : FloatC) (bits : Nat) : Bool := (bits &&& F.exponentMask) == 0

/-- `Float::exponent` -/
def floatExponent (F : FloatC) (bits : Nat) : Int :=
  if isDenormal F bits then F.denormalExponent
  else (((bits &&& F.exponentMask) >>> F.mantissaSize : Nat) : Int) - F.exponentBias

/-- `Float::mantissa` -/
def floatMantissa (F : FloatC) (bits : Nat) : Nat :=
  let s := bits &&& F.mantissaMask
  if !isDenormal F bits then s + F.hiddenBitMask else s

/-- `slow::b` -/
def fb (F : FloatC) (bits : Nat) : ExtFloat := ⟨floatMantissa F bits, floatExponent F bits⟩

/-- `slow::bh` -/
def fbh (F : FloatC) (bits : Nat) : ExtFloat :=
  let fp := fb F bits
  ⟨((fp.mant * 2) % u64Mod + 1) % u64Mod, fp.exp - 1⟩

end MinLex
