/-
  Model of src/mask.rs and src/rounding.rs.
-/
import MinLex.Model.Num
namespace MinLex

/-- `mask::lower_n_mask` (n ≤ 64) -/
def lowerNMask (n : Nat) : Nat := if n = 64 then u64Max else (2^(n % 64)) % u64Mod - 1
/-- `mask::nth_bit` (n < 64) -/
def nthBit (n : Nat) : Nat := (2^(n % 64)) % u64Mod
/-- `mask::lower_n_halfway` (n ≤ 64) -/
def lowerNHalfway (n : Nat) : Nat := if n = 0 then 0 else nthBit (n - 1)

/-- rounding decision callback: (is_odd, is_halfway, is_above) ↦ round up? -/
abbrev RoundCb := Bool → Bool → Bool → Bool

def cbNearestEven : RoundCb := fun isOdd isHalfway isAbove => isAbove || (isOdd && isHalfway)
def cbTruncatedAbove (isTruncated : Bool) : RoundCb :=
  fun isOdd isHalfway isAbove => isAbove || (isHalfway && isTruncated) || (isOdd && isHalfway)
def cbOrdering (ord : Ordering) : RoundCb :=
  fun isOdd _ _ => match ord with
    | .gt => true
    | .lt => false
    | .eq => isOdd

/-- `rounding::round_nearest_tie_even(fp, shift, cb)` (0 ≤ shift ≤ 64) -/
def roundNearestTieEven (cb : RoundCb) (fp : ExtFloat) (shift : Nat) : ExtFloat :=
  let mask := lowerNMask shift
  let halfway := lowerNHalfway shift
  let truncated := fp.mant &&& mask
  let isAbove := decide (truncated > halfway)
  let isHalfway := truncated == halfway
  let mant := if shift = 64 then 0 else fp.mant >>> shift
  let isOdd := mant % 2 == 1
  ⟨mant + (if cb isOdd isHalfway isAbove then 1 else 0), fp.exp + shift⟩

/-- `rounding::round_down(fp, shift)` -/
def roundDown (fp : ExtFloat) (shift : Nat) : ExtFloat :=
  ⟨if shift = 64 then 0 else fp.mant >>> (shift % 64), fp.exp + shift⟩

/-- `rounding::round::<F>(fp, cb)`; `cb` receives the shift. -/
def round (F : FloatC) (cb : ExtFloat → Nat → ExtFloat) (fp : ExtFloat) : ExtFloat :=
  let mantissaShift : Int := 64 - (F.mantissaSize : Int) - 1
  if -fp.exp ≥ mantissaShift then
    let shift := -fp.exp + 1
    let fp1 := cb fp (min shift 64).toNat
    ⟨fp1.mant, if fp1.mant ≥ F.hiddenBitMask then 1 else 0⟩
  else
    let fp1 := cb fp mantissaShift.toNat
    let fp2 : ExtFloat :=
      if fp1.mant &&& F.carryMask == F.carryMask then ⟨fp1.mant >>> 1, fp1.exp + 1⟩ else fp1
    if fp2.exp ≥ F.infinitePower then ⟨0, F.infinitePower⟩
    else ⟨fp2.mant &&& F.mantissaMask, fp2.exp⟩

/-- `debug_assert!(shift <= 65)` in `round` -/
def roundTraps (F : FloatC) (fp : ExtFloat) : Bool :=
  let mantissaShift : Int := 64 - (F.mantissaSize : Int) - 1
  decide (-fp.exp ≥ mantissaShift) && decide (-fp.exp + 1 > 65)

end MinLex
