/-
  Iterator-level model of src/parse.rs (`parse_number_fast`, `parse_number`, `parse_float`) and of
  src/slow.rs (`parse_mantissa` with its macros, `slow`).

  The list-level model (Model/Parse.lean, Model/Slow.lean) takes the two digit sequences as `List UInt8`.
  The Rust code is generic over `Iterator<Item = &u8> + Clone`.  Here the parser is written against an
  abstract iterator whose only operation is `next`; Props/C16Iter.lean proves that, for every lawful
  iterator, it computes what the list-level model computes on the yielded byte sequences.

  HOW EACH RUST CONSTRUCT IS TRANSLATED
  * An iterator value is a state `s : I.σ` of an abstract machine `I : ByteIter`.
  * `it.next()`        ↦ `I.next s = (o, s')`: the returned `Option<&u8>` is `o`, and the iterator is in state
                         `s'` afterwards — ALSO when `o = none` (an iterator may change state on `None`, and
                         the Rust code does call `next()` again after a `None`, see `Lawful.fused`).
  * `it.clone()`       ↦ using the same state value `s` a second time (a clone is a copy of the state, and
                         `next` is a function of the state only).
  * `for x in it { B }`        ↦ a recursive function: `match I.next s` — `none` leaves the loop, `some x` runs
                                 `B` and recurses on `s'`.  The iterator is consumed (moved), so no state is
                                 returned.
  * `for x in &mut it { B }`   ↦ the same, but the function also RETURNS the iterator state in which the loop
                                 was left (after the `None`, or after the item on which `break` fired),
                                 because the code keeps using `it` afterwards.
  * `while let Some(&c) = it.next() { B }` ↦ as `for`; a `return` inside `B` is the `Sum.inl` result.
  * `it.count()`       ↦ `countI`, a loop of `next` calls on the CURRENT (partially consumed) state.
  * `return` inside a loop / macro ↦ an `Option`/`Sum` result of the loop function, examined by the caller.
  * `'label: loop { while cond { … break 'label … } … }` ↦ `pmLoopI` (the `loop`) calling `pmWhileI` (the
    `while`), which reports whether it was left by `break 'label`.
  * Termination: every loop function takes a fuel argument as its first explicit argument and is started with
    `I.size s` for the state `s` in which the loop is entered.  Running out of fuel is treated like a `None`.
    For a lawful iterator this never happens before a real `None` (`size` strictly decreases on every
    `Some`); Proofs/Iter.lean shows every function here is independent of surplus fuel.
  * Arithmetic: exactly the helpers of Model/Parse.lean and Model/Slow.lean (`accStep`, `satI32`, `asI32`,
    `intoI32`, `PM.addDigit`, `PM.flushEnd`, `PM.flushMax`, `pmMulAdd`, …); trap flags are threaded in the
    same way, so the refinement also covers `PN.trap` / `PM.trap`.
-/
import MinLex.Model.Parse
namespace MinLex.It
open MinLex

-- ================================================================ abstract cloneable byte iterators

/-- A cloneable byte iterator: `next` is a deterministic function of the state; cloning is copying the
    state.  `size` is a bound used only to make traversals finite. -/
structure ByteIter where
  σ : Type
  /-- `Iterator::next(&mut self)`: the returned item and the state afterwards -/
  next : σ → Option UInt8 × σ
  /-- an upper bound on the number of items still to come -/
  size : σ → Nat

/-- Well-behaved: it terminates (`dec`) and it is fused (`fused`: once `next` has returned `None` it keeps
    returning `None`).  `std::slice::Iter`, `Chain`, `Filter`, `Flatten` of such iterators all are. -/
structure ByteIter.Lawful (I : ByteIter) : Prop where
  dec : ∀ s c s', I.next s = (some c, s') → I.size s' < I.size s
  fused : ∀ s s', I.next s = (none, s') → (I.next s').1 = none

/-- the bytes yielded from state `s` up to the first `None` (at most `fuel` of them) -/
def ByteIter.toListAux (I : ByteIter) : Nat → I.σ → List UInt8
  | 0, _ => []
  | n + 1, s =>
    match I.next s with
    | (none, _) => []
    | (some c, s') => c :: I.toListAux n s'

/-- the byte sequence an iterator in state `s` yields -/
def ByteIter.toList (I : ByteIter) (s : I.σ) : List UInt8 := I.toListAux (I.size s) s

-- ---------------------------------------------------------------- concrete instances

/-- `slice.iter()`: the state is the remaining slice -/
def sliceIter : ByteIter where
  σ := List UInt8
  next := fun
    | [] => (none, [])
    | c :: r => (some c, r)
  size := List.length

/-- `a.iter().chain(b.iter())`: the state is the two remaining slices -/
def chainIter : ByteIter where
  σ := List UInt8 × List UInt8
  next := fun
    | (c :: a, b) => (some c, (a, b))
    | ([], c :: b) => (some c, ([], b))
    | ([], []) => (none, ([], []))
  size := fun p => p.1.length + p.2.length

/-- `Filter::next` over a slice iterator: advance to the first byte that is not skipped -/
def filterNext (skip : UInt8 → Bool) : List UInt8 → Option UInt8 × List UInt8
  | [] => (none, [])
  | c :: r => if skip c then filterNext skip r else (some c, r)

/-- `slice.iter().filter(|c| !skip(c))`: the bytes satisfying `skip` are dropped (e.g. `_` separators) -/
def filterIter (skip : UInt8 → Bool) : ByteIter where
  σ := List UInt8
  next := filterNext skip
  size := List.length

/-- `Flatten::next` over a slice of slices -/
def chunksNext : List (List UInt8) → Option UInt8 × List (List UInt8)
  | [] => (none, [])
  | [] :: rest => chunksNext rest
  | (c :: cs) :: rest => (some c, cs :: rest)

/-- `chunks.iter().flatten()` (also: byte-at-a-time readers, ropes): state = the remaining chunks -/
def chunksIter : ByteIter where
  σ := List (List UInt8)
  next := chunksNext
  size := fun l => l.flatten.length

/-- A scripted iterator: the state is the list of answers `next()` is still going to give.  Deterministic,
    cloneable and terminating, but NOT fused as soon as the script has a `some` after a `none`. -/
def scriptIter : ByteIter where
  σ := List (Option UInt8)
  next := fun
    | [] => (none, [])
    | o :: r => (o, r)
  size := List.length

-- ================================================================ parse.rs

/-- `Iterator::count(self)` on the current state (`acc` is the running count) -/
def countI (I : ByteIter) : Nat → I.σ → Nat → Nat
  | 0, _, acc => acc
  | n + 1, s, acc =>
    match I.next s with
    | (none, _) => acc
    | (some _, s') => countI I n s' (acc + 1)

/-- `parse_number_fast`: `for &c in it { it_count += 1; let digit = c - b'0';
    num.mantissa = num.mantissa.wrapping_mul(10).wrapping_add(digit as u64); }` ↦ (count, mantissa) -/
def pnfLoopI (I : ByteIter) : Nat → I.σ → Nat → Nat → Nat × Nat
  | 0, _, cnt, m => (cnt, m)
  | n + 1, s, cnt, m =>
    match I.next s with
    | (none, _) => (cnt, m)
    | (some c, s') => pnfLoopI I n s' (cnt + 1) (((m * 10) % u64Mod + digitOf c) % u64Mod)

/-- `parse_number_fast(integer, fraction, exponent)` -/
def parseNumberFastI (I1 : ByteIter) (s1 : I1.σ) (I2 : ByteIter) (s2 : I2.σ) (e : Int) : Option Number :=
  -- let mut num = Number::default(); let mut integer_count = 0; let mut fraction_count = 0;
  let r1 := pnfLoopI I1 (I1.size s1) s1 0 0          -- for &c in integer { … }
  let r2 := pnfLoopI I2 (I2.size s2) s2 0 r1.2       -- for &c in fraction { … }
  if r1.1 + r2.1 ≤ 19 then
    some ⟨satI32 (e - asI32 r2.1), r2.2, false⟩
  else none

/-- `while let Some(&c) = integer.next() { count += 1; if count == 20 { …; return num } else { … } }`;
    `.inl` = the early `return` (which calls `integer.count()` on the partially consumed iterator),
    `.inr (count, mantissa, trap)` = the loop ended on `None`. -/
def pnIntLoopI (I : ByteIter) (e : Int) : Nat → I.σ → Nat → Nat → Bool → Sum PN (Nat × Nat × Bool)
  | 0, _, count, m, tr => .inr (count, m, tr)
  | n + 1, s, count, m, tr =>
    match I.next s with
    | (none, _) => .inr (count, m, tr)
    | (some c, s') =>
      if count + 1 = 20 then
        -- num.many_digits = true; num.exponent = exponent.saturating_add(into_i32(1 + integer.count()));
        .inl ⟨⟨satI32 (e + intoI32 (1 + countI I (I.size s') s' 0)), m, true⟩, tr⟩
      else
        let r := accStep m c
        pnIntLoopI I e n s' (count + 1) r.1 (tr || r.2)

/-- what `for &c in &mut fraction { fraction_count += 1; if c != b'0' { …; break; } }` leaves behind -/
structure SkipI (I : ByteIter) where
  fc : Nat
  count : Nat
  m : Nat
  tr : Bool
  /-- the state `fraction` is left in: after the `None`, or just after the first non-zero byte -/
  st : I.σ

/-- "skip leading fraction zeros" of `parse_number` (entered with `count == 0`) -/
def pnSkipZerosI (I : ByteIter) : Nat → I.σ → Nat → Nat → Bool → SkipI I
  | 0, s, fc, m, tr => ⟨fc, 0, m, tr, s⟩
  | n + 1, s, fc, m, tr =>
    match I.next s with
    | (none, s') => ⟨fc, 0, m, tr, s'⟩
    | (some c, s') =>
      if c != 48 then
        let r := accStep m c
        ⟨fc + 1, 1, r.1, tr || r.2, s'⟩          -- count += 1; …; break
      else pnSkipZerosI I n s' (fc + 1) m tr

/-- `for c in fraction { fraction_count += 1; count += 1; if count == 20 { …; return num } else { … } }`
    followed by the final `num.exponent = exponent.saturating_sub(fraction_count as i32); num` -/
def pnFracLoopI (I : ByteIter) (e : Int) : Nat → I.σ → Nat → Nat → Nat → Bool → PN
  | 0, _, fc, _, m, tr => ⟨⟨satI32 (e - asI32 fc), m, false⟩, tr⟩
  | n + 1, s, fc, count, m, tr =>
    match I.next s with
    | (none, _) => ⟨⟨satI32 (e - asI32 fc), m, false⟩, tr⟩
    | (some c, s') =>
      if count + 1 = 20 then
        ⟨⟨satI32 (e - (asI32 (fc + 1) - 1)), m, true⟩, tr⟩
      else
        let r := accStep m c
        pnFracLoopI I e n s' (fc + 1) (count + 1) r.1 (tr || r.2)

/-- the part of `parse_number` after the failed `parse_number_fast` -/
def parseNumberSlowI (I1 : ByteIter) (s1 : I1.σ) (I2 : ByteIter) (s2 : I2.σ) (e : Int) : PN :=
  -- let mut num = Number::default(); let mut count = 0;
  match pnIntLoopI I1 e (I1.size s1) s1 0 0 false with
  | .inl r => r
  | .inr (count, m, tr) =>
    -- let mut fraction_count = 0;
    if count = 0 then
      let k := pnSkipZerosI I2 (I2.size s2) s2 0 m tr           -- for &c in &mut fraction { … break }
      pnFracLoopI I2 e (I2.size k.st) k.st k.fc k.count k.m k.tr  -- for c in fraction   (what is left)
    else pnFracLoopI I2 e (I2.size s2) s2 0 count m tr          -- for c in fraction   (untouched)

/-- `parse_number(integer, fraction, exponent)`: `parse_number_fast` runs on clones, the second pass on
    the iterators themselves — both start from the states `s1`, `s2`. -/
def parseNumberI (I1 : ByteIter) (s1 : I1.σ) (I2 : ByteIter) (s2 : I2.σ) (e : Int) : Number :=
  match parseNumberFastI I1 s1 I2 s2 e with      -- parse_number_fast(integer.clone(), fraction.clone(), …)
  | some n => n
  | none => (parseNumberSlowI I1 s1 I2 s2 e).num

-- ================================================================ slow.rs

/-- `round_up_nonzero!`'s scan `for &digit in $iter { if digit != b'0' { …; return } }`:
    `true` iff a non-zero byte is met (and the function returns) -/
def anyNonzeroI (I : ByteIter) : Nat → I.σ → Bool
  | 0, _ => false
  | n + 1, s =>
    match I.next s with
    | (none, _) => false
    | (some c, s') => if c != 48 then true else anyNonzeroI I n s'

/-- `round_up_nonzero!(format, iter, result, count)` on the iterator state `st`:
    `some s'` = `round_up_truncated!` was executed and `parse_mantissa` returned `(result, count)` -/
def roundUpNonzeroI (cap : Option Nat) (s : PM) (I : ByteIter) (st : I.σ) : Option PM :=
  if anyNonzeroI I (I.size st) st then
    some { s with result := pmMulAdd cap s.result 10 1, count := s.count + 1 }
  else none

/-- `while counter < step && count < max_digits { if let Some(&c) = it.next() { add_digit!(…) }
    else { break 'label } }`: the variables, the iterator state, and `true` iff left by `break 'label` -/
def pmWhileI (I : ByteIter) (md : Nat) : Nat → I.σ → PM → PM × I.σ × Bool
  | 0, st, s => (s, st, decide (s.counter < pmStep ∧ s.count < md))
  | n + 1, st, s =>
    if s.counter < pmStep ∧ s.count < md then
      match I.next st with
      | (some c, st') => pmWhileI I md n st' (s.addDigit c)
      | (none, st') => (s, st', true)
    else (s, st, false)

/-- how one of the labelled loops `'integer` / `'fraction` is left -/
inductive PMOutI (I : ByteIter) where
  /-- `break 'label`: the iterator returned `None` -/
  | exhausted (s : PM)
  /-- the `count == max_digits` branch was entered; `add_temporary!(@end …)` already done; `st` is the
      partially consumed iterator the `round_up_nonzero!` scans start from -/
  | full (s : PM) (st : I.σ)
  /-- the fuel of the outer `loop` ran out: the Rust loop would spin forever.  Only possible from a loop
      head with `count > max_digits`; never produced by `parseMantissaPMI` (Proofs: `pmLoopI_eq`). -/
  | spin (s : PM)

/-- `'label: loop { while … { … }  if count == max_digits { add_temporary!(@end …); ⟨leave⟩ }
    else { add_temporary!(@max …) } }`.  Every iteration of the `loop` that does not leave consumes at
    least one byte, so `I.size st + 1` iterations are enough. -/
def pmLoopI (I : ByteIter) (cap : Option Nat) (T : PowTables) (md : Nat) : Nat → I.σ → PM → PMOutI I
  | 0, _, s => .spin s
  | k + 1, st, s =>
    let r := pmWhileI I md (I.size st) st s
    if r.2.2 then .exhausted r.1                                   -- break 'label
    else if r.1.count = md then .full (r.1.flushEnd cap T) r.2.1   -- add_temporary!(@end …)
    else pmLoopI I cap T md k r.2.1 (r.1.flushMax cap)             -- add_temporary!(@max …)

/-- `for &c in &mut fraction { if c != b'0' { add_digit!(…); break; } }` of `parse_mantissa` -/
def pmSkipZerosI (I : ByteIter) : Nat → I.σ → PM → PM × I.σ
  | 0, st, s => (s, st)
  | n + 1, st, s =>
    match I.next st with
    | (none, st') => (s, st')
    | (some c, st') => if c != 48 then (s.addDigit c, st') else pmSkipZerosI I n st' s

/-- `slow::parse_mantissa(integer, fraction, max_digits)` as a state (result, count, trap flag) -/
def parseMantissaPMI (cap : Option Nat) (T : PowTables) (I1 : ByteIter) (s1 : I1.σ) (I2 : ByteIter)
    (s2 : I2.σ) (md : Nat) : PM :=
  -- let mut counter = 0; let mut count = 0; let mut value = 0; let mut result = Bigint::new();
  let s0 : PM := ⟨0, 0, 0, some [], false⟩
  match pmLoopI I1 cap T md (I1.size s1 + 1) s1 s0 with            -- 'integer: loop { … }
  | .spin s => { s with result := none }
  | .full s st1 =>
    match roundUpNonzeroI cap s I1 st1 with                        -- round_up_nonzero!(…, integer, …)
    | some s' => s'
    | none =>
      match roundUpNonzeroI cap s I2 s2 with                       -- round_up_nonzero!(…, fraction, …)
      | some s' => s'
      | none => s                                                  -- return (result, count)
  | .exhausted s =>
    -- if count == 0 { for &c in &mut fraction { … break } }
    let k := if s.count = 0 then pmSkipZerosI I2 (I2.size s2) s2 s else (s, s2)
    match pmLoopI I2 cap T md (I2.size k.2 + 1) k.2 k.1 with       -- 'fraction: loop { … }
    | .spin s2' => { s2' with result := none }
    | .full s2' st2 =>
      match roundUpNonzeroI cap s2' I2 st2 with                    -- round_up_nonzero!(…, fraction, …)
      | some s' => s'
      | none => s2'
    | .exhausted s2' => s2'.flushEnd cap T                         -- add_temporary!(@end …)

def parseMantissaI (cap : Option Nat) (T : PowTables) (I1 : ByteIter) (s1 : I1.σ) (I2 : ByteIter)
    (s2 : I2.σ) (md : Nat) : Option (Big × Nat) :=
  let s := parseMantissaPMI cap T I1 s1 I2 s2 md
  match s.result with
  | none => none
  | some r => some (r, s.count)

/-- `slow::slow::<F>(num, fp, integer, fraction)` -/
def slowI (cap : Option Nat) (T : PowTables) (F : FloatC) (num : Number) (fp : ExtFloat)
    (I1 : ByteIter) (s1 : I1.σ) (I2 : ByteIter) (s2 : I2.σ) : Option ExtFloat :=
  let sciExp := scientificExponent num
  match parseMantissaI cap T I1 s1 I2 s2 F.maxDigits with
  | none => none
  | some (bigmant, digits) =>
    let exponent := wrapI32 (sciExp + 1 - asI32 digits)
    if exponent ≥ 0 then positiveDigitComp cap T F bigmant exponent
    else negativeDigitComp cap T F bigmant fp exponent

-- ================================================================ parse_float

/-- `parse_float::<F>(integer, fraction, exponent)`, release semantics: `parse_number` gets
    `integer.clone(), fraction.clone()`, `slow` gets the originals — all four start from `s1`, `s2`. -/
def parseFloatI (E : Env) (F : FloatC) (I1 : ByteIter) (s1 : I1.σ) (I2 : ByteIter) (s2 : I2.σ)
    (e : Int) : Outcome :=
  let num := parseNumberI I1 s1 I2 s2 e
  match tryFastPath F (E.powFastPath F) (intPow10 E.cfg.compact E.pow.smallIntPow10) num with
  | some v => .ok v
  | none =>
    match moderatePath E F num with
    | none => .panic
    | some fp =>
      if fp.exp < 0 then
        match slowI E.cap E.pow F num ⟨fp.mant, wrapI32 (fp.exp - F.invalidFp)⟩ I1 s1 I2 s2 with
        | none => .panic
        | some fp' => .ok (extendedToFloat F fp')
      else .ok (extendedToFloat F fp)

end MinLex.It
