import MinLex.Props.C19Final
open MinLex.C19Final
#print axioms MinLex.Front.expOf_clamp
#print axioms MinLex.Front.clamp_harmless
#print axioms MinLex.Front.clamp_harmful
#print axioms C19_never_panics
#print axioms C19_value
#print axioms C19_grammar
#print axioms C19_grammar_take
#print axioms C19_sign_bit
#print axioms C19_exponent
#print axioms C19_clamp_harmless
#print axioms C19_value_true_exponent
#print axioms C19_clamp_harmful
#print axioms bigInput_pieces
#print axioms C19_front_clamp_gen
#print axioms C19_front_clamp_finding
#print axioms C19_final
#print axioms C19_simple
#print axioms C19_special_nan
#print axioms C19_special_infinity
#print axioms C19_special_inf
#print axioms C19_literal_match
#print axioms C19_special_no_literal
#print axioms C19_empty_match
#print axioms C19_empty_match_conv
#print axioms C19_special_eq_simple
