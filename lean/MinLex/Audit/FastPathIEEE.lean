import MinLex.Props.FastPathIEEE
#print axioms MinLex.FastPathIEEE.infBits_lt_signBit
#print axioms MinLex.FastPathIEEE.decode_fst_eq_zero_iff
#print axioms MinLex.FastPathIEEE.fmul_eq_libm
#print axioms MinLex.FastPathIEEE.fdiv_eq_libm
#print axioms MinLex.FastPathIEEE.tryFastPath_eq_libm
#print axioms MinLex.FastPathIEEE.conv_finite
#print axioms MinLex.FastPathIEEE.finiteOperands_f64
#print axioms MinLex.FastPathIEEE.finiteOperands_f32
#print axioms MinLex.FastPathIEEE.tryFastPath_libm_genEnv
