import MinLex.Props.C06
#print axioms MinLex.C06.C06_noncompact
#print axioms MinLex.C06.C06_partial
#print axioms MinLex.C06.C06_append_zeros_value
#print axioms MinLex.C06.C06_append_zeros_rne
#print axioms MinLex.C06.C06_append_zeros_parse
#print axioms MinLex.C06.C06_above_mid
#print axioms MinLex.C06.C06_below_mid
#print axioms MinLex.C06.C06_on_mid
#print axioms MinLex.C06.C06_sticky_value
#print axioms MinLex.C06.C06_sticky_rne
#print axioms MinLex.C06.C06_sticky_parse
