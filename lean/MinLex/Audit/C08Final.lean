import MinLex.Props.C08Final
#print axioms MinLex.C08Final.C08_final_faithful
#print axioms MinLex.C08Final.C08_final_faithful_gen
#print axioms MinLex.C08Final.C08_final_reads_are_reads
#print axioms MinLex.C08Final.C08_final
#print axioms MinLex.C08Final.C08_final_i32
#print axioms MinLex.C08Final.C08_final_ranges_f64
#print axioms MinLex.C08Final.C08_final_ranges_f32
#print axioms MinLex.C08Final.C08_final_lengths
#print axioms MinLex.C08Final.C08_final_compact
#print axioms MinLex.C08Final.C08_vectors_final
#print axioms MinLex.C08Final.C08_outcome
#print axioms MinLex.C08Final.C08_outcome_le_inf
#print axioms MinLex.C08Final.C08_whole_parser
#print axioms MinLex.C08Final.C08_final_complete
#print axioms MinLex.C08Final.C08_final_scrubbed
