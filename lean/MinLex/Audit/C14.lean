import MinLex.Props.C14
open MinLex.C14
#print axioms lemire_table
#print axioms small_int_pow5
#print axioms small_int_pow10
#print axioms small_f64_pow10
#print axioms small_f32_pow10
#print axioms large_pow5
#print axioms bellerophon_tables
#print axioms pow_fast_path_values
#print axioms compact_int_pow_no_wrap
#print axioms C14_lemire
#print axioms C14_small_int_pow5
#print axioms C14_small_int_pow10
#print axioms C14_large_pow5
