import MinLex.Props.C01
#print axioms MinLex.C01.C01_noncompact
#print axioms MinLex.C01.C01_partial
#print axioms MinLex.C01.rne_f64_le_inf
#print axioms MinLex.C01.rne_f64_inf_iff
#print axioms MinLex.C01.rne_f64_zero_iff
#print axioms MinLex.C01.rne_f64_decode
#print axioms MinLex.C01.rne_f64_nearest
#print axioms MinLex.C01.rne_f64_tie
#print axioms MinLex.C01.C01_result_facts
