import MinLex.Props.LemireSound
open MinLex.LemireSound
#print axioms roundCore_sound
#print axioms small_sound
#print axioms large_sound
#print axioms computeFloat_sound
#print axioms lemSnd_F64
#print axioms lemSnd_F32
#print axioms computeFloat_sound_f64
#print axioms computeFloat_sound_f32
#print axioms lemire_definite
#print axioms lemire_sound
#print axioms modSound_lemire
#print axioms modSound_genEnv_f64
#print axioms modSound_genEnv_f32
#print axioms rne_le_of_lt_midpoint
#print axioms rne_of_estimate
#print axioms computeFloat_declined
#print axioms lemire_declined
#print axioms declined_value
#print axioms est_toRat
#print axioms lemire_est_partial
#print axioms modEst_lemire_partial
#print axioms noAllOnesWithShift_of_second
#print axioms rowParity_F64
#print axioms rowParity_F32
#print axioms modEst_genEnv_f64_partial
#print axioms modEst_genEnv_f32_partial
