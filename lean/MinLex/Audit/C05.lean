import MinLex.Props.C05
#print axioms MinLex.C05.C05_noncompact
#print axioms MinLex.C05.C05_partial
#print axioms MinLex.C05.C05_stack_heap
