import MinLex.Props.C17
open MinLex
#print axioms C17_masks
#print axioms C17_isDenormal
#print axioms C17_mantissa_exponent
#print axioms C17_fb
#print axioms C17_fbh
#print axioms C17_extendedToFloat
#print axioms C17_extendedToFloat_hidden
#print axioms C17_decode_extendedToFloat
#print axioms C17_roundtrip
#print axioms C17_f64_mantissa_exponent
#print axioms C17_f32_mantissa_exponent
#print axioms C17_f64_isDenormal
#print axioms C17_f32_isDenormal
#print axioms C17_f64_fbh
#print axioms C17_f32_fbh
#print axioms C17_f64_extendedToFloat
#print axioms C17_f32_extendedToFloat
