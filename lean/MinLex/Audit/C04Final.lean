import MinLex.Props.C04Final
open MinLex.C04Final
#print axioms bellerophon_definite
#print axioms C04_traps_noncompact
#print axioms C04_traps_compact
#print axioms C04_traps_all
#print axioms C04_final
#print axioms C04
#print axioms C04_bellerophon_asserts
#print axioms C04_bellerophon_main_path
