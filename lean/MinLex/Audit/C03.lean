import MinLex.Props.C03
#print axioms MinLex.C03.C03a_spec
#print axioms MinLex.C03.C03a_noncompact
#print axioms MinLex.C03.C03a_partial
#print axioms MinLex.C03.C03b_spec
#print axioms MinLex.C03.C03b_f64
#print axioms MinLex.C03.C03b_f32
#print axioms MinLex.C03.C03b_f64_noncompact
#print axioms MinLex.C03.C03b_f32_noncompact
#print axioms MinLex.C03.C03b_f64_partial
#print axioms MinLex.C03.C03b_f32_partial
#print axioms MinLex.C03.C03c_noncompact
#print axioms MinLex.C03.C03c_partial
#print axioms MinLex.C03.C03c_interval
