import MinLex.Proofs.Compose
#print axioms MinLex.Compose.pn_genEnv
#print axioms MinLex.Compose.fast_genEnv
#print axioms MinLex.Compose.modTotal_noncompact
#print axioms MinLex.Compose.modRange_noncompact
#print axioms MinLex.Compose.hyps_noncompact
#print axioms MinLex.Compose.parseCorrect_noncompact
#print axioms MinLex.Compose.modTotal_compact
#print axioms MinLex.Compose.modRange_compact
#print axioms MinLex.Compose.hyps_compact
#print axioms MinLex.Compose.parseCorrect_compact
#print axioms MinLex.Compose.parseCorrect_of_open
#print axioms MinLex.Compose.digitsValue_append_zeros
#print axioms MinLex.Compose.digitsValue_sticky_lt
#print axioms MinLex.Compose.rne_above_mid
#print axioms MinLex.Compose.rne_below_mid
#print axioms MinLex.Compose.rne_on_mid
