import MinLex.Props.C09
#print axioms MinLex.C09.C09_spec
#print axioms MinLex.C09.C09_noncompact
#print axioms MinLex.C09.C09_partial
#print axioms MinLex.C09.C09_strict
