import MinLex.Props.Final
open MinLex.Final
#print axioms MAIN_all
#print axioms C01
#print axioms C02
#print axioms C05_f64
#print axioms C05_f32
#print axioms C06
#print axioms C07
#print axioms C09
#print axioms C10
#print axioms C03a
#print axioms C03b_f64
#print axioms C03b_f32
#print axioms C03c
#print axioms C04_no_panic
