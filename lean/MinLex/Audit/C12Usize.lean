import MinLex.Props.C12Usize
#print axioms MinLex.C12Usize.new_eq_model
#print axioms MinLex.C12Usize.old_eq_model_of_no_wrap
#print axioms MinLex.C12Usize.old_accepts_overflow
#print axioms MinLex.C12Usize.old_wrong_iff
