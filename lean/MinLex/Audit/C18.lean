import MinLex.Props.C18
open MinLex
#print axioms C18_lowerNMask
#print axioms C18_nthBit
#print axioms C18_lowerNHalfway
#print axioms C18_lowerNHalfway_zero
#print axioms roundNearestTieEven_eq
#print axioms C18_roundNearestTieEven
#print axioms C18_shift_zero_quirk
#print axioms C18_roundDown
#print axioms flog2_ofDyadic
#print axioms rne_ofDyadic
#print axioms rneTrunc_ofDyadic
#print axioms round_pack
#print axioms C18_round_nearest
#print axioms C18_round_down
#print axioms C18_round_decision
#print axioms C18_round_decision_finite
#print axioms C18_f64_round_nearest
#print axioms C18_f32_round_nearest
#print axioms C18_f64_round_down
#print axioms C18_f32_round_down
#print axioms C18_f64_exp_m64_outside_contract
#print axioms C18_round_callback
#print axioms rneTrunc_parity
#print axioms C18_round_ordering
