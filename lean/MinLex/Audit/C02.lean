import MinLex.Props.C02
#print axioms MinLex.C02.C02_noncompact
#print axioms MinLex.C02.C02_partial
#print axioms MinLex.C02.rne_f32_le_inf
#print axioms MinLex.C02.rne_f32_inf_iff
#print axioms MinLex.C02.rne_f32_zero_iff
#print axioms MinLex.C02.rne_f32_decode
#print axioms MinLex.C02.rne_f32_nearest
#print axioms MinLex.C02.rne_f32_tie
#print axioms MinLex.C02.C02_result_facts
#print axioms MinLex.C02.double_rounding_differs
#print axioms MinLex.C02.C02_not_double_rounding
