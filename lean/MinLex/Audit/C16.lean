import MinLex.Props.C16
#print axioms MinLex.C16.C16_pure
#print axioms MinLex.C16.C16_call_sequence
#print axioms MinLex.C16.C16_no_stale_memory
#print axioms MinLex.C16.C16_low_refines_model
#print axioms MinLex.C16.C16_two_traversals
#print axioms MinLex.C16.C16_depends_on_bytes_only
#print axioms MinLex.C16.C16_split_irrelevant
#print axioms MinLex.C16.C16_chunking_irrelevant
#print axioms MinLex.C16.C16_deterministic_tables
