import MinLex.Props.C16Iter
#print axioms MinLex.C16Iter.parseNumberFastI_eq
#print axioms MinLex.C16Iter.parseNumberSlowI_eq
#print axioms MinLex.C16Iter.parseNumberI_eq
#print axioms MinLex.C16Iter.parseMantissaPMI_eq
#print axioms MinLex.C16Iter.parseMantissaI_eq
#print axioms MinLex.C16Iter.slowI_eq
#print axioms MinLex.C16Iter.parseFloatI_eq
#print axioms MinLex.C16Iter.C16_iterator_independent
#print axioms MinLex.C16Iter.C16_iterator_independent_stages
#print axioms MinLex.C16Iter.C16_iterator_correct
#print axioms MinLex.C16Iter.instances_lawful
#print axioms MinLex.C16Iter.instances_toList
#print axioms MinLex.C16Iter.C16_shapes
#print axioms MinLex.C16Iter.not_fused_differs
#print axioms MinLex.C16Iter.lawful_needed
