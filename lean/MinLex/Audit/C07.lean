import MinLex.Props.C07
#print axioms MinLex.C07.C07_of_parseCorrect
#print axioms MinLex.C07.C07_overflow_noncompact
#print axioms MinLex.C07.C07_underflow_noncompact
#print axioms MinLex.C07.C07_partial
#print axioms MinLex.C07.C07_zero_spec
#print axioms MinLex.C07.C07_zero_unconditional
#print axioms MinLex.C07.C07_saturation
#print axioms MinLex.C07.C07_saturated_low_noncompact
#print axioms MinLex.C07.C07_saturated_high_noncompact
