import MinLex.Props.RneSpec
#print axioms MinLex.RneSpec.flog2_spec
#print axioms MinLex.RneSpec.flog2_congr
#print axioms MinLex.RneSpec.rne_congr
#print axioms MinLex.RneSpec.rneTrunc_congr
#print axioms MinLex.RneSpec.rhe_mono
#print axioms MinLex.RneSpec.rne_mono
