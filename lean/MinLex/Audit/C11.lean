import MinLex.Props.C11
#print axioms MinLex.C11.C11_lemire
#print axioms MinLex.C11.C11_bellerophon
#print axioms MinLex.C11.C11_lemire_f64
#print axioms MinLex.C11.C11_lemire_f32
#print axioms MinLex.C11.C11_bellerophon_f64
#print axioms MinLex.C11.C11_bellerophon_f32
#print axioms MinLex.C11.C11_moderatePath
#print axioms MinLex.C11.corner_bellerophon_zero_truncated
#print axioms MinLex.C11.corner_lemire_zero_truncated
#print axioms MinLex.C11.corner_lemire_max_truncated
