import MinLex.Props.C10
#print axioms MinLex.C10.C10_spec
#print axioms MinLex.C10.C10_noncompact
#print axioms MinLex.C10.C10_partial
#print axioms MinLex.C10.C10_shift_point
#print axioms MinLex.C10.C10_append_zero
#print axioms MinLex.C10.C10_resplit_number
#print axioms MinLex.C10.C10_resplit_stages
#print axioms MinLex.C10.C10_resplit_unconditional
