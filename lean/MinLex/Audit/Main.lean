import MinLex.Props.Main
open MinLex.Main
#print axioms MAIN
#print axioms C09_of_parseCorrect
#print axioms C10_of_parseCorrect
#print axioms C05_of_parseCorrect
