/-
  Specification layer: IEEE-754 binary formats over exact rationals (pairs of naturals).
  Everything is executable, core-only, over Nat/Int.  No floats anywhere.
-/
namespace MinLex

/-- A binary interchange format: `mbits` explicit significand bits, `ebits` exponent bits. -/
structure Fmt where
  mbits : Nat
  ebits : Nat
deriving Repr, DecidableEq

def Fmt.f64 : Fmt := ⟨52, 11⟩
def Fmt.f32 : Fmt := ⟨23, 8⟩

/-- Exponent of the least significant bit of subnormals / the first binade: −1074, −149. -/
def Fmt.kmin (f : Fmt) : Int := 2 - (2:Int)^(f.ebits-1) - f.mbits
/-- Bit pattern of +infinity. -/
def Fmt.infBits (f : Fmt) : Nat := (2^f.ebits - 1) * 2^f.mbits
/-- Exponent bias in the crate's convention (bias + mbits): 1075, 150. -/
def Fmt.bias (f : Fmt) : Int := (2:Int)^(f.ebits-1) - 1 + f.mbits

/-- A non-negative rational `num / den` (`den > 0` wherever it is used). -/
structure Q where
  num : Nat
  den : Nat
deriving Repr, DecidableEq

def Q.le (a b : Q) : Prop := a.num * b.den ≤ b.num * a.den
def Q.lt (a b : Q) : Prop := a.num * b.den < b.num * a.den
def Q.eqv (a b : Q) : Prop := a.num * b.den = b.num * a.den
instance (a b : Q) : Decidable (Q.le a b) := by unfold Q.le; infer_instance
instance (a b : Q) : Decidable (Q.lt a b) := by unfold Q.lt; infer_instance
instance (a b : Q) : Decidable (Q.eqv a b) := by unfold Q.eqv; infer_instance

/-- `m * 2^j` as a rational. -/
def ofDyadic (m : Nat) (j : Int) : Q :=
  if j ≥ 0 then ⟨m * 2^j.toNat, 1⟩ else ⟨m, 2^(-j).toNat⟩

/-- `d * 10^e` as a rational. -/
def ofDec (d : Nat) (e : Int) : Q :=
  if e ≥ 0 then ⟨d * 10^e.toNat, 1⟩ else ⟨d, 10^(-e).toNat⟩

/-- `N ≥ D * 2^e` for integer `e` (positive or negative). -/
def geP2 (N D : Nat) (e : Int) : Bool :=
  if e ≥ 0 then decide (N ≥ D * 2^e.toNat) else decide (N * 2^(-e).toNat ≥ D)

/-- ⌊log2 (N/D)⌋ for N, D > 0. -/
def flog2 (N D : Nat) : Int :=
  let a : Int := (Nat.log2 N : Int) - (Nat.log2 D : Int)
  if geP2 N D (a+1) then a+1 else if geP2 N D a then a else a - 1

/-- The scaled quotient `(A, B)` with `v / 2^k = A / B`. -/
def scaleP2 (v : Q) (k : Int) : Nat × Nat :=
  if k ≥ 0 then (v.num, v.den * 2^k.toNat) else (v.num * 2^(-k).toNat, v.den)

/-- Exponent of the unit in the last place used to round `v`. -/
def ulpExp (f : Fmt) (v : Q) : Int := max (flog2 v.num v.den - f.mbits) f.kmin

/-- Round half to even of `A/B`. -/
def rhe (A B : Nat) : Nat :=
  let q := A / B
  let r := A % B
  if 2*r > B ∨ (2*r = B ∧ q % 2 = 1) then q+1 else q

/-- Round-to-nearest-even of a non-negative rational into format `f`, as a bit pattern.
    Gradual underflow, overflow to infinity. -/
def rne (f : Fmt) (v : Q) : Nat :=
  if v.num = 0 then 0 else
  let k := ulpExp f v
  let p := scaleP2 v k
  let m := rhe p.1 p.2
  let bits := m + (k - f.kmin).toNat * 2^f.mbits
  min bits f.infBits

/-- Truncating variant: the largest float not above `v` (saturating at infinity). -/
def rneTrunc (f : Fmt) (v : Q) : Nat :=
  if v.num = 0 then 0 else
  let k := ulpExp f v
  let p := scaleP2 v k
  let m := p.1 / p.2
  let bits := m + (k - f.kmin).toNat * 2^f.mbits
  min bits f.infBits

/-- IEEE meaning of a finite non-negative bit pattern, as `m * 2^k`. -/
def decode (f : Fmt) (bits : Nat) : Nat × Int :=
  let e := bits / 2^f.mbits
  let fr := bits % 2^f.mbits
  if e = 0 then (fr, f.kmin) else (2^f.mbits + fr, f.kmin + (e : Int) - 1)

def decodeQ (f : Fmt) (bits : Nat) : Q :=
  let p := decode f bits
  ofDyadic p.1 p.2

/-- Digit value of an ASCII byte (only meaningful for '0'..'9'). -/
def digitVal (c : UInt8) : Nat := c.toNat - 48

def isDigit (c : UInt8) : Bool := 48 ≤ c.toNat && c.toNat ≤ 57

/-- Value of a digit string, most significant first. -/
def ofDigits (ds : List UInt8) : Nat := ds.foldl (fun acc c => acc * 10 + digitVal c) 0

/-- Exact value of `int . frac × 10^e`. -/
def digitsValue (int frac : List UInt8) (e : Int) : Q :=
  ofDec (ofDigits (int ++ frac)) (e - frac.length)

def i32Min : Int := -2147483648
def i32Max : Int := 2147483647

/-- The inputs `parse_float` documents as valid (trailing fraction zeros are allowed here). -/
def Valid (int frac : List UInt8) (e : Int) : Prop :=
  (∀ c ∈ int, isDigit c = true) ∧ (∀ c ∈ frac, isDigit c = true) ∧
  (int.head? ≠ some 48) ∧ int.length < 2147483647 ∧ frac.length < 2147483647 ∧
  i32Min ≤ e ∧ e ≤ i32Max

def validB (int frac : List UInt8) (e : Int) : Bool :=
  int.all isDigit && frac.all isDigit && (int.head? != some 48) &&
  decide (int.length < 2147483647) && decide (frac.length < 2147483647) &&
  decide (i32Min ≤ e) && decide (e ≤ i32Max)

end MinLex
