/-
  Model driver: reads the same case lines as the Rust harness (`hx run`) and prints, per line,
  `<model outcome>` and, where a specification applies, ` | S <spec outcome>`.
  usage: driver <cfg>
  A trailing ` !trap` on the model part means: a debug-assertion / overflow-check build panics here.
-/
import MinLex.Model.Env
import MinLex.Model.Alloc
import MinLex.Model.ParseW
import MinLex.Model.Iter
import MinLex.Model.Libm
open MinLex

def hexVal (c : Char) : Nat :=
  if c.isDigit then c.toNat - 48
  else if 'a' ≤ c ∧ c ≤ 'f' then c.toNat - 87
  else if 'A' ≤ c ∧ c ≤ 'F' then c.toNat - 55
  else 0

def parseHexNat (s : String) : Nat := s.foldl (fun acc c => acc * 16 + hexVal c) 0

def parseNat (s : String) : Nat :=
  if s.startsWith "0x" then parseHexNat (s.drop 2).toString else s.toNat?.getD 0

def parseInt (s : String) : Int :=
  if s.startsWith "-" then - (parseNat (s.drop 1).toString : Int) else parseNat s

def hexBytes (cs : List Char) : List UInt8 :=
  match cs with
  | a :: b :: rest => (UInt8.ofNat (hexVal a * 16 + hexVal b)) :: hexBytes rest
  | _ => []

/-- `-` empty; segments joined by `+`: d<ascii>, h<hex>, r<count>:<hexbyte> -/
def decodeBytes (tok : String) : List UInt8 :=
  if tok == "-" then [] else
  (tok.splitOn "+").foldl (fun acc seg =>
    match seg.toList with
    | 'd' :: rest => acc ++ rest.map (fun c => UInt8.ofNat c.toNat)
    | 'h' :: rest => acc ++ hexBytes rest
    | 'r' :: rest =>
      match (String.ofList rest).splitOn ":" with
      | [n, hb] => acc ++ List.replicate (parseNat n) (UInt8.ofNat (parseHexNat hb))
      | _ => acc
    | _ => acc) []

def parseLimbs (s : String) : List Nat :=
  if s == "-" then [] else (s.splitOn ",").map parseNat

def fmtLimbs (x : List Nat) : String :=
  if x.isEmpty then "-" else ",".intercalate (x.map toString)

def hex (n : Nat) : String := String.ofList (Nat.toDigits 16 n)

def fpStr (fp : ExtFloat) : String := s!"{fp.mant} {fp.exp}"
def optFp : Option ExtFloat → String
  | some fp => fpStr fp
  | none => "panic"
def optBig : Option Big → String
  | some x => fmtLimbs x
  | none => "none"
def ordStr : Ordering → String
  | .lt => "lt"
  | .eq => "eq"
  | .gt => "gt"
def b01 (b : Bool) : String := if b then "1" else "0"

def cfgOfString (s : String) : Cfg :=
  let parts := s.splitOn "+"
  ⟨parts.contains "compact", parts.contains "alloc", parts.contains "std"⟩

def fmtOf (s : String) : FloatC := if s == "f32" then Gen.F32 else Gen.F64

-- ------------------------------------------------------------------ spec helpers
/-- exact tie (or the overflow threshold): rne jumps exactly at `v` -/
def isTie (f : Fmt) (v : Q) : Bool :=
  if v.num = 0 then false else
  let k := ulpExp f v
  let p := scaleP2 v k
  decide (2 * (p.1 % p.2) = p.2)

/-- left limit of `rne` at `v` -/
def rneLeft (f : Fmt) (v : Q) : Nat := if isTie f v then rneTrunc f v else rne f v

/-- `rne` of `w * 10^q` with shortcuts for absurd exponents (w < 2^64) -/
def rneDec (f : Fmt) (w : Nat) (q : Int) (left : Bool) : Nat :=
  if w = 0 then 0
  else if q > 400 then f.infBits
  else if q < -440 then 0
  else if left then rneLeft f (ofDec w q) else rne f (ofDec w q)

/-- significant-digit view of a valid input: strip leading zeros; value = D * 10^E with at most
    `keep` digits kept and a sticky 1 appended when non-zero digits were dropped (sound for
    keep ≥ 800 because no f32/f64 rounding boundary has more than 768 significant digits). -/
def sigDigits (int frac : List UInt8) (e : Int) (keep : Nat) : Nat × Int :=
  let all := int ++ frac
  let lead := (all.takeWhile (· == 48)).length
  let sig := all.drop lead
  let e0 : Int := e - frac.length
  if sig.length ≤ keep then (ofDigits sig, e0)
  else
    let kept := sig.take keep
    let dropped := sig.drop keep
    let sticky := dropped.any (· != 48)
    let d := ofDigits kept
    let e1 : Int := e0 + dropped.length
    if sticky then (d * 10 + 1, e1 - 1) else (d, e1)

def specParse (f : Fmt) (int frac : List UInt8) (e : Int) : Nat :=
  let p := sigDigits int frac e 800
  let d := p.1
  let ex := p.2
  if d = 0 then 0
  else
    let nd : Int := (Nat.toDigits 10 d).length
    if ex + nd > 400 then f.infBits
    else if ex + nd < -400 then 0
    else rne f (ofDec d ex)

/-- EstOK: hand-off contract between a declining moderate stage and the slow path (DESIGN 4.4),
    evaluated for the exact value `v`; `fp` already un-biased from INVALID_FP. -/
def estOK (F : FloatC) (fp : ExtFloat) (v : Q) : Bool :=
  let f := F.fmt
  if !(decide (9223372036854775808 ≤ fp.mant) && decide (fp.mant < u64Mod) && decide (fp.exp ≥ -64)) then false
  else
    let b := extendedToFloat F (round F roundDown fp)
    -- v must round (to nearest) to b or succ b
    let r := rne f v
    r == b || r == b + 1

-- ------------------------------------------------------------------ commands
def vecHistory (cap : Option Nat) (spec : String) : String :=
  let step (st : Big × Big × List String) (op : String) : Big × Big × List String :=
    let (a, b, out) := st
    let p := op.splitOn ":"
    let arg (i : Nat) : String := p.getD i ""
    let (res, a', b') : String × Big × Big :=
      match arg 0 with
      | "new" => ("ok", [], b)
      | "from" => match vecTryFrom cap (parseLimbs (arg 1)) with
        | some v => ("ok", v, b)
        | none => ("none", a, b)
      | "push" => match vecTryPush cap a (parseNat (arg 1)) with
        | some v => ("ok", v, b)
        | none => ("none", a, b)
      | "pop" => match vecPop a with
        | some (v, r) => (toString v, r, b)
        | none => ("none", a, b)
      | "ext" => match vecTryExtend cap a (parseLimbs (arg 1)) with
        | some v => ("ok", v, b)
        | none => ("none", a, b)
      | "rsz" => match vecTryResize cap a (parseNat (arg 1)) (parseNat (arg 2)) with
        | some v => ("ok", v, b)
        | none => ("none", a, b)
      | "norm" => ("ok", normalize a, b)
      | "adds" => match smallAdd cap a (parseNat (arg 1)) with
        | some v => ("ok", v, b)
        | none => ("none", (smallAddAux (parseNat (arg 1)) a).1, b)   -- limbs already updated in place
      | "muls" => match smallMul cap a (parseNat (arg 1)) with
        | some v => ("ok", v, b)
        | none => ("none", (smallMulAux (parseNat (arg 1)) 0 a).1, b)  -- only the carry push failed
      | "fromu64" => ("ok", fromU64 (parseNat (arg 1)), b)
      | "clone" => ("ok", a, a)
      | "swap" => ("ok", b, a)
      | "eq" => (b01 (a.length == b.length && a == b), a, b)
      | "cmp" => (ordStr (bigCompare a b), a, b)
      | "pcmp" => (ordStr (bigCompare a b), a, b)
      | "hi64" => let h := hi64 a; (s!"{h.1}/{b01 h.2}", a, b)
      | "len" => (toString a.length, a, b)
      | "empty" => (b01 a.isEmpty, a, b)
      | "capok" => ("1", a, b)
      | "isnorm" => (b01 (isNormalized a), a, b)
      | _ => ("bad-op", a, b)
    (a', b', out ++ [s!"{res}={fmtLimbs a'}"])
  let (_, _, out) := (spec.splitOn ";").foldl step ([], [], [])
  "|".intercalate out

/-- failed `small_mul`/`small_add` in a history leave the vector *modified* in the Rust code
    (the carry push is the last step); the model above keeps `a`.  The harness prints the real
    contents; the comparator treats a failed arithmetic op as "contents unspecified". -/
def dummy : Unit := ()

/-- specification of the `*_to_hi64_*` helpers for a non-zero top word: the top 64 bits of the
    concatenation `n` and whether anything below them is non-zero -/
def topSpec (top n : Nat) : String :=
  if top = 0 then "" else
    let bl := Nat.log2 n + 1
    if bl ≥ 64 then s!" | S {n / 2^(bl-64)} {b01 (n % 2^(bl-64) != 0)}" else s!" | S {n * 2^(64-bl)} 0"

def bigintCmd (E : Env) (t : List String) : String :=
  let cap := E.cap
  let T := E.pow
  let arg (i : Nat) : String := t.getD i ""
  let ctor (s : String) (k : Big → String) : String :=
    match vecTryFrom cap (parseLimbs s) with
    | some v => k v
    | none => "ctor-none"
  let nat (x : Big) : Nat := toNat x
  match arg 0 with
  | "small_add" => ctor (arg 1) fun x => optBig (smallAdd cap x (parseNat (arg 2))) ++ s!" | S {nat x + parseNat (arg 2)}"
  | "small_add_from" => ctor (arg 1) fun x =>
      optBig (smallAddFrom cap x (parseNat (arg 2)) (parseNat (arg 3))) ++
      (if parseNat (arg 3) ≤ x.length then s!" | S {nat x + parseNat (arg 2) * B ^ parseNat (arg 3)}" else "")
  | "small_mul" => ctor (arg 1) fun x => optBig (smallMul cap x (parseNat (arg 2))) ++ s!" | S {nat x * parseNat (arg 2)}"
  | "large_add" => ctor (arg 1) fun x => optBig (largeAdd cap x (parseLimbs (arg 2))) ++ s!" | S {nat x + nat (parseLimbs (arg 2))}"
  | "large_add_from" => ctor (arg 1) fun x =>
      optBig (largeAddFrom cap x (parseLimbs (arg 2)) (parseNat (arg 3))) ++
      s!" | S {nat x + nat (parseLimbs (arg 2)) * B ^ parseNat (arg 3)}"
  | "long_mul" =>
      let x := parseLimbs (arg 1); let y := parseLimbs (arg 2)
      optBig (longMul cap x y) ++ (if y.isEmpty then "" else s!" | S {nat x * nat y}")
  | "large_mul" => ctor (arg 1) fun x =>
      let y := parseLimbs (arg 2)
      optBig (largeMul cap x y) ++ (if y.isEmpty || x.isEmpty then "" else s!" | S {nat x * nat y}")
  | "pow" => ctor (arg 1) fun x => optBig (pow cap T x (parseNat (arg 2))) ++ s!" | S {nat x * 5 ^ parseNat (arg 2)}"
  | "bpow" => ctor (arg 1) fun x =>
      optBig (bigintPow cap T x (parseNat (arg 2)) (parseNat (arg 3))) ++ s!" | S {nat x * (parseNat (arg 2)) ^ parseNat (arg 3)}"
  | "shl" => ctor (arg 1) fun x => optBig (shl cap x (parseNat (arg 2))) ++ (if parseNat (arg 2) ≤ 70000 then s!" | S {nat x * 2 ^ parseNat (arg 2)}" else "")
  | "shl_bits" => ctor (arg 1) fun x => optBig (shlBits cap x (parseNat (arg 2))) ++ (if parseNat (arg 2) ≤ 70000 then s!" | S {nat x * 2 ^ parseNat (arg 2)}" else "")
  | "shl_limbs" => ctor (arg 1) fun x => optBig (shlLimbs cap x (parseNat (arg 2))) ++ (if parseNat (arg 2) ≤ 1000 then s!" | S {nat x * B ^ parseNat (arg 2)}" else "")
  | "compare" =>
      let x := parseLimbs (arg 1); let y := parseLimbs (arg 2)
      ordStr (bigCompare x y) ++
      (if isNormalized x && isNormalized y then " | S " ++ ordStr (Ord.compare (nat x) (nat y)) else "")
  | "hi64" =>
      let x := parseLimbs (arg 1)
      let h := hi64 x
      s!"{h.1} {b01 h.2}" ++
      (if isNormalized x && !x.isEmpty then
        let n := nat x
        let bl := Nat.log2 n + 1
        if bl ≥ 64 then s!" | S {n / 2^(bl-64)} {b01 (n % 2^(bl-64) != 0)}" else s!" | S {n * 2^(64-bl)} 0"
       else "")
  | "bhi64" => ctor (arg 1) fun x => let h := hi64 x; s!"{h.1} {b01 h.2} {bitLength x}"
  | "bit_length" =>
      let x := parseLimbs (arg 1)
      toString (bitLength x) ++ (if isNormalized x then s!" | S {if nat x = 0 then 0 else Nat.log2 (nat x) + 1}" else "")
  | "leading_zeros" => toString (leadingZeros (parseLimbs (arg 1)))
  | "normalize" => ctor (arg 1) fun x => fmtLimbs (normalize x) ++ s!" | S {nat x}"
  | "is_normalized" => b01 (isNormalized (parseLimbs (arg 1)))
  | "from_u64" => fmtLimbs (fromU64 (parseNat (arg 1))) ++ s!" | S {parseNat (arg 1)}"
  | "bfrom_u64" => fmtLimbs (fromU64 (parseNat (arg 1))) ++ s!" | S {parseNat (arg 1)}"
  | "scalar_add" => let r := scalarAdd (parseNat (arg 1)) (parseNat (arg 2)); s!"{r.1} {b01 r.2}"
  | "scalar_mul" => let r := scalarMul (parseNat (arg 1)) (parseNat (arg 2)) (parseNat (arg 3)); s!"{r.1} {r.2}"
  | "nonzero" => b01 (nonzero (parseLimbs (arg 1)) (parseNat (arg 2)))
  | "u64_to_hi64_1" => let r := u64ToHi64_1 (parseNat (arg 1)); s!"{r.1} {b01 r.2}" ++ topSpec (parseNat (arg 1)) (parseNat (arg 1))
  | "u64_to_hi64_2" => let r := u64ToHi64_2 (parseNat (arg 1)) (parseNat (arg 2)); s!"{r.1} {b01 r.2}" ++
      topSpec (parseNat (arg 1)) (parseNat (arg 1) * B + parseNat (arg 2))
  | "u32_to_hi64_1" => let r := W.u32ToHi64_1 (parseNat (arg 1)); s!"{r.1} {b01 r.2}" ++ topSpec (parseNat (arg 1)) (parseNat (arg 1))
  | "u32_to_hi64_2" => let r := W.u32ToHi64_2 (parseNat (arg 1)) (parseNat (arg 2)); s!"{r.1} {b01 r.2}" ++
      topSpec (parseNat (arg 1)) (parseNat (arg 1) * 4294967296 + parseNat (arg 2))
  | "u32_to_hi64_3" => let r := W.u32ToHi64_3 (parseNat (arg 1)) (parseNat (arg 2)) (parseNat (arg 3)); s!"{r.1} {b01 r.2}" ++
      topSpec (parseNat (arg 1)) ((parseNat (arg 1) * 4294967296 + parseNat (arg 2)) * 4294967296 + parseNat (arg 3))
  | "mulassign" => ctor (arg 1) fun x => ctor (arg 2) fun y =>
      (match largeMul cap x y with
       | some z => fmtLimbs z
       | none => "panic") ++ (if y.isEmpty || x.isEmpty then "" else s!" | S {nat x * nat y}")
  | _ => "unknown-bigint-op"

def fnvMix (h v : UInt64) : UInt64 := (h ^^^ v) * 0x100000001b3

def i64bits (x : Int) : UInt64 := UInt64.ofNat (x % (u64Mod : Int)).toNat

/-- the iterator-level model (Model/Iter.lean) over the four iterator shapes the harness also uses
    (slice, chain split in the middle, chain split at 19 / 1, filter over `_`-padded buffers):
    `none` if they all give the list-level outcome (they must: `C16Iter.parseFloatI_eq`) -/
def iterShapesDisagree (E : Env) (F : FloatC) (int frac : List UInt8) (e : Int) : Option String :=
  let ref := parseFloat E F int frac e
  let pad (l : List UInt8) (before : Bool) : List UInt8 :=
    l.foldr (fun c acc => if before then 95 :: c :: acc else c :: 95 :: acc) (if before then [95] else [])
  let skip : UInt8 → Bool := fun c => c == 95
  let outs : List (String × Outcome) := [
    ("slice", It.parseFloatI E F It.sliceIter int It.sliceIter frac e),
    ("chain-mid", It.parseFloatI E F It.chainIter (int.take (int.length / 2), int.drop (int.length / 2))
                    It.chainIter (frac.take (frac.length / 3), frac.drop (frac.length / 3)) e),
    ("chain-19", It.parseFloatI E F It.chainIter (int.take 19, int.drop 19) It.chainIter (frac.take 1, frac.drop 1) e),
    ("filter", It.parseFloatI E F (It.filterIter skip) (pad int true) (It.filterIter skip) (pad frac false) e),
    ("chunks", It.parseFloatI E F It.chunksIter [int.take 7, [], int.drop 7] It.chunksIter [[], frac] e)]
  match outs.find? (fun p => p.2 != ref) with
  | some p => some p.1
  | none => none

def runCase (E : Env) (line : String) : String :=
  let t := (line.splitOn " ").filter (· ≠ "")
  let arg (i : Nat) : String := t.getD i ""
  match arg 0 with
  | "pf" | "al" | "it" | "path" =>
    let F := fmtOf (arg 1)
    let int := decodeBytes (arg 2)
    let frac := decodeBytes (arg 3)
    let e := parseInt (arg 4)
    if arg 0 == "path" then
      let num := parseNumber int frac e
      match tryFastPath F (E.powFastPath F) (intPow10 E.cfg.compact E.pow.smallIntPow10) num with
      | some _ => "fast"
      | none => match moderatePath E F num with
        | some fp => if fp.exp ≥ 0 then "moderate" else "slow"
        | none => "panic"
    else
    let out := parseFloat E F int frac e
    let m := match out with
      | .ok b => s!"v {hex b}"
      | .panic => "panic"
    let m := if parseFloatTraps E F int frac e then m ++ " !trap" else m
    let m := if arg 0 == "it" then
        (match iterShapesDisagree E F int frac e with
         | some shape => s!"iter-model-disagrees {shape} " ++ m
         | none => m)
      else m
    let m := if arg 0 == "al" then
        let num := parseNumber int frac e
        let isSlow := match tryFastPath F (E.powFastPath F) (intPow10 E.cfg.compact E.pow.smallIntPow10) num with
          | some _ => false
          | none => match moderatePath E F num with
            | some fp => decide (fp.exp < 0)
            | none => false
        let _ := isSlow
        m ++ (if !E.cfg.alloc then " allocs 0" else s!" allocs {parseAllocs E F int frac e}")
      else m
    if validB int frac e then m ++ s!" | S v {hex (specParse F.fmt int frac e)}" else m
  | "powd" =>
    (match Libm.powd (parseNat (arg 1)) (parseNat (arg 2)) with
     | some b => toString b
     | none => "none")
  | "powf" =>
    (match Libm.powf (parseNat (arg 1)) (parseNat (arg 2)) with
     | some b => toString b
     | none => "none")
  | "nf" =>
    -- nf <fmt> <int_a> <int_b> <frac_a> <frac_b> <exp>: non-fused iterators (a, None, b, None, ...) through the
    -- iterator-level model; the list-level value of the concatenation is printed after `| L` for comparison
    let F := fmtOf (arg 1)
    let ia := decodeBytes (arg 2); let ib := decodeBytes (arg 3)
    let fa := decodeBytes (arg 4); let fb := decodeBytes (arg 5)
    let e := parseInt (arg 6)
    let script (a b : List UInt8) : List (Option UInt8) := a.map some ++ [none] ++ b.map some
    let show' (o : Outcome) : String := match o with
      | .ok b => s!"v {hex b}"
      | .panic => "panic"
    show' (It.parseFloatI E F It.scriptIter (script ia ib) It.scriptIter (script fa fb) e) ++
      " | L " ++ show' (parseFloat E F (ia ++ ib) (fa ++ fb) e)
  | "pn" =>
    let n := parseNumber (decodeBytes (arg 1)) (decodeBytes (arg 2)) (parseInt (arg 3))
    s!"{n.mantissa} {n.exponent} {b01 n.manyDigits}" ++
      (if parseNumberTraps (decodeBytes (arg 1)) (decodeBytes (arg 2)) (parseInt (arg 3)) then " !trap" else "")
  | "fp" =>
    let F := fmtOf (arg 1)
    let n : Number := ⟨parseInt (arg 3), parseNat (arg 2), arg 4 == "1"⟩
    let isfp := b01 (isFastPath F n)
    (match tryFastPath F (E.powFastPath F) (intPow10 E.cfg.compact E.pow.smallIntPow10) n with
     | some v => s!"some {hex v} {isfp}" ++ s!" | S {hex (rneDec F.fmt n.mantissa n.exponent false)}"
     | none => s!"none {isfp}")
  | "mp" =>
    let F := fmtOf (arg 1)
    let n : Number := ⟨parseInt (arg 3), parseNat (arg 2), arg 4 == "1"⟩
    let r := moderatePath E F n
    let trap := !E.cfg.compact && lemireTraps E.lem F n
    let lo := rneDec F.fmt n.mantissa n.exponent false
    let hi := rneDec F.fmt (n.mantissa + 1) n.exponent true
    optFp r ++ (if trap then " !trap" else "") ++ s!" | S {hex lo} {hex hi}"
  | "est" =>
    -- est <fmt> <w> <q> <t> <mant> <exp>: EstOK of an (implementation) declined estimate at both
    -- ends of the input interval
    let F := fmtOf (arg 1)
    let w := parseNat (arg 2)
    let q := parseInt (arg 3)
    let fp : ExtFloat := ⟨parseNat (arg 5), parseInt (arg 6) - F.invalidFp⟩
    if q > 400 ∨ q < -440 then "skip" else
    let a := estOK F fp (ofDec w q)
    let b := if arg 4 == "1" then
        -- just below (w+1)*10^q: use left-limit semantics via rneLeft
        let v := ofDec (w + 1) q
        let bb := extendedToFloat F (round F roundDown fp)
        let r := rneLeft F.fmt v
        r == bb || r == bb + 1
      else true
    b01 (a && b)
  | "cf" => let F := fmtOf (arg 1); optFp (computeFloat E.lem F (parseInt (arg 2)) (parseNat (arg 3)))
  | "ce" =>
    let F := fmtOf (arg 1)
    optFp (computeError E.lem F (parseInt (arg 2)) (parseNat (arg 3))) ++ (if parseNat (arg 3) == 0 then " !trap" else "")
  | "ces" => let F := fmtOf (arg 1); fpStr (computeErrorScaled F (parseInt (arg 2)) (parseNat (arg 3)) (parseInt (arg 4)))
  | "belnorm" =>
    let r := belNormalize ⟨parseNat (arg 1), parseInt (arg 2)⟩
    s!"{r.1.mant} {r.1.exp} {r.2}"
  | "belmul" => fpStr (belMul ⟨parseNat (arg 1), parseInt (arg 2)⟩ ⟨parseNat (arg 3), parseInt (arg 4)⟩)
  | "rd" =>
    let F := fmtOf (arg 1)
    let fp : ExtFloat := ⟨parseNat (arg 3), parseInt (arg 4)⟩
    let cb : ExtFloat → Nat → ExtFloat := match arg 2 with
      | "ne" => roundNearestTieEven cbNearestEven
      | "dn" => roundDown
      | "gt" => roundNearestTieEven (cbOrdering .gt)
      | "lt" => roundNearestTieEven (cbOrdering .lt)
      | "eq" => roundNearestTieEven (cbOrdering .eq)
      | _ => roundNearestTieEven (cbTruncatedAbove true)
    let r := round F cb fp
    let v := ofDyadic fp.mant (fp.exp - F.exponentBias)
    let spec := match arg 2 with
      | "ne" => s!" | S {hex (rne F.fmt v)}"
      | "dn" => s!" | S {hex (rneTrunc F.fmt v)}"
      | _ => ""
    let spec := if fp.mant ≥ 9223372036854775808 ∧ fp.exp ≥ -63 ∧ fp.exp ≤ 5000 then spec else ""
    s!"{r.mant} {r.exp} {hex (extendedToFloat F r)}" ++ (if roundTraps F fp then " !trap" else "") ++ spec
  | "rnte" => fpStr (roundNearestTieEven cbNearestEven ⟨parseNat (arg 1), parseInt (arg 2)⟩ (parseNat (arg 3)))
  | "rdn" => fpStr (roundDown ⟨parseNat (arg 1), parseInt (arg 2)⟩ (parseNat (arg 3)))
  | "mask" =>
    let n := parseNat (arg 1)
    s!"{lowerNMask n} {lowerNHalfway n} " ++ (if n < 64 then toString (nthBit n) else "na") ++
      s!" | S {2^n - 1} {if n = 0 then 0 else 2^(n-1)} " ++ (if n < 64 then toString (2^n) else "na")
  | "fl" =>
    let F := fmtOf (arg 1)
    let bits := parseNat (arg 2)
    let b := fb F bits
    let bh := fbh F bits
    let d := decode F.fmt (bits % 2^(F.width - 1))
    s!"{b01 (isDenormal F bits)} {floatExponent F bits} {floatMantissa F bits} {hex bits} {b.mant} {b.exp} {bh.mant} {bh.exp}" ++
      (if bits % 2^(F.width-1) < F.fmt.infBits then s!" | S {d.1} {d.2}" else "")
  | "flh" =>
    let F := fmtOf (arg 1)
    let start := parseNat (arg 2)
    let count := parseNat (arg 3)
    let stride := parseNat (arg 4)
    let rec go (n : Nat) (bits : Nat) (h : UInt64) : UInt64 :=
      match n with
      | 0 => h
      | n + 1 =>
        let h := fnvMix h (if isDenormal F bits then 1 else 0)
        let h := fnvMix h (i64bits (floatExponent F bits))
        let h := fnvMix h (UInt64.ofNat (floatMantissa F bits))
        let h := fnvMix h (UInt64.ofNat bits)
        let bh := fbh F bits
        let h := fnvMix h (UInt64.ofNat bh.mant)
        let h := fnvMix h (i64bits bh.exp)
        go n ((bits + stride) % u64Mod) h
    hex (go count start 0xcbf29ce484222325).toNat
  | "e2f" =>
    let F := fmtOf (arg 1)
    let fp : ExtFloat := ⟨parseNat (arg 2), parseInt (arg 3)⟩
    hex (extendedToFloat F fp) ++ (if extendedToFloatTraps F fp then " !trap" else "")
  | "u2f" => let F := fmtOf (arg 1); hex (floatFromU64 F (parseNat (arg 2)))
  | "pm" =>
    let s := parseMantissaPM E.cap E.pow (decodeBytes (arg 1)) (decodeBytes (arg 2)) (parseNat (arg 3))
    (match s.result with
     | some r => s!"{fmtLimbs r} {s.count}"
     | none => "panic") ++ (if s.trap then " !trap" else "")
  | "sci" => toString (scientificExponent ⟨parseInt (arg 2), parseNat (arg 1), false⟩)
  | "pdc" =>
    let F := fmtOf (arg 1)
    (match vecTryFrom E.cap (parseLimbs (arg 2)) with
     | none => "ctor-none"
     | some x => optFp (positiveDigitComp E.cap E.pow F x (parseInt (arg 3))))
  | "ndc" =>
    let F := fmtOf (arg 1)
    (match vecTryFrom E.cap (parseLimbs (arg 2)) with
     | none => "ctor-none"
     | some x => optFp (negativeDigitComp E.cap E.pow F x ⟨parseNat (arg 3), parseInt (arg 4)⟩ (parseInt (arg 5))))
  | "sl" =>
    let F := fmtOf (arg 1)
    let n : Number := ⟨parseInt (arg 3), parseNat (arg 2), arg 4 == "1"⟩
    optFp (slow E.cap E.pow F n ⟨parseNat (arg 5), parseInt (arg 6)⟩ (decodeBytes (arg 7)) (decodeBytes (arg 8)))
  | "adddigit" =>
    let v := parseNat (arg 1) * 10 + parseNat (arg 2)
    if parseNat (arg 1) * 10 ≥ u64Mod ∨ v ≥ u64Mod then "none" else toString v
  | "bg" => bigintCmd E (t.drop 1)
  | "vh" => vecHistory E.cap (arg 1)
  | "fe" =>
    let F := fmtOf (arg 2)
    let special := arg 1 == "fuzz" || arg 1 == "itest"
    (match Front.parse E F special (decodeBytes (arg 3)) with
     | .ok bits rest => s!"v {hex bits} rest {rest}"
     | .panic => "panic")
  | "core" => "-"
  | "" => ""
  | _ => if line.startsWith "#" then "" else s!"unknown-command {arg 0}"


-- ------------------------------------------------------------------ 32-bit-limb build (Model/BigintW.lean)
def bigintCmdW (w : Nat) (E : Env) (t : List String) : String :=
  let cap := W.capW w E.cfg.alloc
  let T := W.genPowW w E.cfg.compact
  let arg (i : Nat) : String := t.getD i ""
  let ctor (s : String) (k : Big → String) : String :=
    match vecTryFrom cap (parseLimbs s) with
    | some v => k v
    | none => "ctor-none"
  let nat (x : Big) : Nat := W.toNatW w x
  let Bw := W.Bw w
  match arg 0 with
  | "small_add" => ctor (arg 1) fun x => optBig (W.smallAdd w cap x (parseNat (arg 2))) ++ s!" | S {nat x + parseNat (arg 2)}"
  | "small_add_from" => ctor (arg 1) fun x =>
      optBig (W.smallAddFrom w cap x (parseNat (arg 2)) (parseNat (arg 3))) ++
      (if parseNat (arg 3) ≤ x.length then s!" | S {nat x + parseNat (arg 2) * Bw ^ parseNat (arg 3)}" else "")
  | "small_mul" => ctor (arg 1) fun x => optBig (W.smallMul w cap x (parseNat (arg 2))) ++ s!" | S {nat x * parseNat (arg 2)}"
  | "large_add" => ctor (arg 1) fun x => optBig (W.largeAdd w cap x (parseLimbs (arg 2))) ++ s!" | S {nat x + nat (parseLimbs (arg 2))}"
  | "large_add_from" => ctor (arg 1) fun x =>
      optBig (W.largeAddFrom w cap x (parseLimbs (arg 2)) (parseNat (arg 3))) ++
      s!" | S {nat x + nat (parseLimbs (arg 2)) * Bw ^ parseNat (arg 3)}"
  | "long_mul" =>
      let x := parseLimbs (arg 1); let y := parseLimbs (arg 2)
      optBig (W.longMul w cap x y) ++ (if y.isEmpty then "" else s!" | S {nat x * nat y}")
  | "large_mul" => ctor (arg 1) fun x =>
      let y := parseLimbs (arg 2)
      optBig (W.largeMul w cap x y) ++ (if y.isEmpty || x.isEmpty then "" else s!" | S {nat x * nat y}")
  | "pow" => ctor (arg 1) fun x => optBig (W.pow w cap T x (parseNat (arg 2))) ++ s!" | S {nat x * 5 ^ parseNat (arg 2)}"
  | "bpow" => ctor (arg 1) fun x =>
      optBig (W.bigintPow w cap T x (parseNat (arg 2)) (parseNat (arg 3))) ++ s!" | S {nat x * (parseNat (arg 2)) ^ parseNat (arg 3)}"
  | "shl" => ctor (arg 1) fun x => optBig (W.shl w cap x (parseNat (arg 2))) ++ (if parseNat (arg 2) ≤ 70000 then s!" | S {nat x * 2 ^ parseNat (arg 2)}" else "")
  | "shl_bits" => ctor (arg 1) fun x => optBig (W.shlBits w cap x (parseNat (arg 2))) ++ (if parseNat (arg 2) ≤ 70000 then s!" | S {nat x * 2 ^ parseNat (arg 2)}" else "")
  | "shl_limbs" => ctor (arg 1) fun x => optBig (shlLimbs cap x (parseNat (arg 2))) ++ (if parseNat (arg 2) ≤ 1000 then s!" | S {nat x * Bw ^ parseNat (arg 2)}" else "")
  | "compare" =>
      let x := parseLimbs (arg 1); let y := parseLimbs (arg 2)
      ordStr (bigCompare x y) ++
      (if isNormalized x && isNormalized y then " | S " ++ ordStr (Ord.compare (nat x) (nat y)) else "")
  | "hi64" =>
      let x := parseLimbs (arg 1)
      let h := W.hi64 w x
      s!"{h.1} {b01 h.2}" ++
      (if isNormalized x && !x.isEmpty then
        let n := nat x
        let bl := Nat.log2 n + 1
        if bl ≥ 64 then s!" | S {n / 2^(bl-64)} {b01 (n % 2^(bl-64) != 0)}" else s!" | S {n * 2^(64-bl)} 0"
       else "")
  | "bhi64" => ctor (arg 1) fun x => let h := W.hi64 w x; s!"{h.1} {b01 h.2} {W.bitLength w x}"
  | "bit_length" =>
      let x := parseLimbs (arg 1)
      toString (W.bitLength w x) ++ (if isNormalized x then s!" | S {if nat x = 0 then 0 else Nat.log2 (nat x) + 1}" else "")
  | "leading_zeros" => toString (W.leadingZeros w (parseLimbs (arg 1)))
  | "normalize" => ctor (arg 1) fun x => fmtLimbs (normalize x) ++ s!" | S {nat x}"
  | "is_normalized" => b01 (isNormalized (parseLimbs (arg 1)))
  | "from_u64" => fmtLimbs (W.fromU64 w (parseNat (arg 1))) ++ s!" | S {parseNat (arg 1)}"
  | "bfrom_u64" => fmtLimbs (W.fromU64 w (parseNat (arg 1))) ++ s!" | S {parseNat (arg 1)}"
  | "scalar_add" => let r := W.scalarAdd w (parseNat (arg 1)) (parseNat (arg 2)); s!"{r.1} {b01 r.2}"
  | "scalar_mul" => let r := W.scalarMul w (parseNat (arg 1)) (parseNat (arg 2)) (parseNat (arg 3)); s!"{r.1} {r.2}"
  | "nonzero" => b01 (nonzero (parseLimbs (arg 1)) (parseNat (arg 2)))
  | "u32_to_hi64_1" => let r := W.u32ToHi64_1 (parseNat (arg 1)); s!"{r.1} {b01 r.2}"
  | "u32_to_hi64_2" => let r := W.u32ToHi64_2 (parseNat (arg 1)) (parseNat (arg 2)); s!"{r.1} {b01 r.2}"
  | "u32_to_hi64_3" => let r := W.u32ToHi64_3 (parseNat (arg 1)) (parseNat (arg 2)) (parseNat (arg 3)); s!"{r.1} {b01 r.2}"
  | "u64_to_hi64_1" => let r := u64ToHi64_1 (parseNat (arg 1)); s!"{r.1} {b01 r.2}"
  | "u64_to_hi64_2" => let r := u64ToHi64_2 (parseNat (arg 1)) (parseNat (arg 2)); s!"{r.1} {b01 r.2}"
  | "mulassign" => ctor (arg 1) fun x => ctor (arg 2) fun y =>
      (match W.largeMul w cap x y with
       | some z => fmtLimbs z
       | none => "panic") ++ (if y.isEmpty || x.isEmpty then "" else s!" | S {nat x * nat y}")
  | _ => "unknown-bigint-op"

/-- commands of a `w`-bit-limb build; everything that does not touch the big integers is shared -/
def runCaseW (w : Nat) (E : Env) (line : String) : String :=
  let t := (line.splitOn " ").filter (· ≠ "")
  let arg (i : Nat) : String := t.getD i ""
  match arg 0 with
  | "pf" =>
    let F := fmtOf (arg 1)
    let int := decodeBytes (arg 2)
    let frac := decodeBytes (arg 3)
    let e := parseInt (arg 4)
    let m := match W.parseFloat w E F int frac e with
      | .ok b => s!"v {hex b}"
      | .panic => "panic"
    if validB int frac e then m ++ s!" | S v {hex (specParse F.fmt int frac e)}" else m
  | "sl" =>
    let F := fmtOf (arg 1)
    let n : Number := ⟨parseInt (arg 3), parseNat (arg 2), arg 4 == "1"⟩
    optFp (W.slow w (W.capW w E.cfg.alloc) (W.genPowW w E.cfg.compact) F n ⟨parseNat (arg 5), parseInt (arg 6)⟩
      (decodeBytes (arg 7)) (decodeBytes (arg 8)))
  | "pm" =>
    (match W.parseMantissa w (W.capW w E.cfg.alloc) (W.genPowW w E.cfg.compact) (decodeBytes (arg 1)) (decodeBytes (arg 2)) (parseNat (arg 3)) with
     | none => "panic"
     | some (r, c) => s!"{fmtLimbs r} {c}")
  | "bg" => bigintCmdW w E (t.drop 1)
  | "u32hi" => bigintCmdW w E (t.drop 1)
  | _ => runCase E line

partial def loop (w : Nat) (E : Env) (hin : IO.FS.Stream) (hout : IO.FS.Stream) : IO Unit := do
  let line ← hin.getLine
  if line.isEmpty then return ()
  let l := String.ofList (line.toList.filter (fun c => c != '\n' && c != '\r'))
  hout.putStrLn (if w = 64 then runCase E l else runCaseW w E l)
  loop w E hin hout

def main (args : List String) : IO Unit := do
  -- `<cfg>` = 64-bit-limb build (every command); `<cfg>@32` = the 32-bit-limb build (Model/BigintW.lean)
  let a := (args.getD 0 "std").splitOn "@"
  let cfg := cfgOfString (a.getD 0 "std")
  let w := if a.getD 1 "64" == "32" then 32 else 64
  let hin ← IO.getStdin
  let hout ← IO.getStdout
  loop w (genEnv cfg) hin hout
