/-
  Site-log driver (run with `lake env lean --run LogDriver.lean <cfg>`): for each `pfl` line prints the
  model outcome and the model's log of unchecked table reads (SitesAll.parseFloatLog), in the
  harness's format `site:index:bound` with table ids 1 = SMALL_F32_POW10, 2 = SMALL_F64_POW10,
  3 = SMALL_INT_POW5, 4 = SMALL_INT_POW10.
-/
import MinLex.Proofs.SitesAll
open MinLex MinLex.SitesAll

-- helpers copied from Main.lean (line protocol)
def hexVal (c : Char) : Nat :=
  if c.isDigit then c.toNat - 48
  else if 'a' ≤ c ∧ c ≤ 'f' then c.toNat - 87
  else if 'A' ≤ c ∧ c ≤ 'F' then c.toNat - 55
  else 0

def parseHexNat (s : String) : Nat := s.foldl (fun acc c => acc * 16 + hexVal c) 0

def parseNat (s : String) : Nat :=
  if s.startsWith "0x" then parseHexNat (s.drop 2).toString else s.toNat?.getD 0

def parseInt (s : String) : Int :=
  if s.startsWith "-" then - (parseNat (s.drop 1).toString : Int) else parseNat s

def hexBytes (cs : List Char) : List UInt8 :=
  match cs with
  | a :: b :: rest => (UInt8.ofNat (hexVal a * 16 + hexVal b)) :: hexBytes rest
  | _ => []

/-- `-` empty; segments joined by `+`: d<ascii>, h<hex>, r<count>:<hexbyte> -/
def decodeBytes (tok : String) : List UInt8 :=
  if tok == "-" then [] else
  (tok.splitOn "+").foldl (fun acc seg =>
    match seg.toList with
    | 'd' :: rest => acc ++ rest.map (fun c => UInt8.ofNat c.toNat)
    | 'h' :: rest => acc ++ hexBytes rest
    | 'r' :: rest =>
      match (String.ofList rest).splitOn ":" with
      | [n, hb] => acc ++ List.replicate (parseNat n) (UInt8.ofNat (parseHexNat hb))
      | _ => acc
    | _ => acc) []

def hex (n : Nat) : String := String.ofList (Nat.toDigits 16 n)

def cfgOfString (s : String) : Cfg :=
  let parts := s.splitOn "+"
  ⟨parts.contains "compact", parts.contains "alloc", parts.contains "std"⟩

def fmtOf (s : String) : FloatC := if s == "f32" then Gen.F32 else Gen.F64


def tableId (F : FloatC) : SiteId → Nat
  | .S1 | .S2 | .S4 => if F.width = 32 then 1 else 2
  | .S3 | .S5S6 => 4
  | .S7 => 3

def runLog (E : Env) (line : String) : String :=
  let t := (line.splitOn " ").filter (· ≠ "")
  let arg (i : Nat) : String := t.getD i ""
  if arg 0 != "pfl" then "" else
  let F := fmtOf (arg 1)
  let r := parseFloatLog E F (decodeBytes (arg 2)) (decodeBytes (arg 3)) (parseInt (arg 4))
  let o := match r.1 with
    | .ok b => s!"v {hex b}"
    | .panic => "panic"
  let l := r.2.map (fun a => s!"{tableId F a.site}:{a.index}:{a.bound}")
  o ++ " log " ++ (if l.isEmpty then "-" else ",".intercalate l)

partial def logLoop (E : Env) (hin hout : IO.FS.Stream) : IO Unit := do
  let line ← hin.getLine
  if line.isEmpty then return ()
  let l := String.ofList (line.toList.filter (fun c => c != '\n' && c != '\r'))
  hout.putStrLn (runLog E l)
  logLoop E hin hout

def main (args : List String) : IO Unit := do
  let cfg := cfgOfString (args.getD 0 "std")
  logLoop (genEnv cfg) (← IO.getStdin) (← IO.getStdout)
